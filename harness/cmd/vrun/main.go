// vrun runs one shard of a property's fixed case list (virtual time, real escalator code)
// and writes a JSON result file. It never writes results to stdout: under -tags faketime
// fd 1 and 2 are framed.
package main

import (
	"encoding/json"
	"flag"
	"fmt"
	"os"
	"path/filepath"
	"runtime"
	"runtime/debug"
	"sort"
	"strings"
	"syscall"
	"time"

	"verifharness/direct"
	"verifharness/engine"
	"verifharness/monitor"
)

type result struct {
	Property    string              `json:"property"`
	Tier        string              `json:"tier"`
	Seed        int64               `json:"seed"`
	Shard       string              `json:"shard"`
	Cases       int                 `json:"cases"`
	Scans       int                 `json:"scans"`
	Cover       map[string]int      `json:"cover"`
	DontCare    map[string]int      `json:"dontcare"`
	Counters    map[string]int      `json:"counters"`
	Samples     []string            `json:"samples"`
	Violations  []monitor.Violation `json:"violations"`
	Replays     map[string]string   `json:"replays"`
	Errors      []string            `json:"errors"`
	Exhaustive  bool                `json:"exhaustive"`
	Unmodelled  map[string]string   `json:"unmodelled,omitempty"`
	WallSeconds float64             `json:"wall_s"`
}

func main() {
	prop := flag.String("prop", "", "property id")
	tier := flag.String("tier", "quick", "quick|thorough")
	seed := flag.Int64("seed", 1, "run seed")
	shard := flag.String("shard", "0/1", "i/n")
	out := flag.String("out", "", "result file")
	progress := flag.String("progress", "", "file that receives the id of each case before it runs")
	replayDir := flag.String("replays", "", "directory for witness files")
	oneCase := flag.String("case", "", "run a single case id (profile[+pair]:seed:index) with a full trace to -trace")
	traceFile := flag.String("trace", "", "trace output for -case")
	mode := flag.String("mode", "history", "history|direct")
	flag.Parse()
	// Under -tags faketime the runtime's timed waits never expire while anything runs, so a GC cycle
	// that has to wait for another P (mark termination, stop-the-world) hangs for ever (go1.23.5).
	// One P and no background GC, from the very first instruction: re-exec with the environment set.
	if os.Getenv("GOMAXPROCS") != "1" || os.Getenv("GOGC") != "off" {
		env := append(os.Environ(), "GOMAXPROCS=1", "GOGC=off")
		exe, err := os.Executable()
		if err == nil {
			syscall.Exec(exe, os.Args, env)
		}
	}
	debug.SetGCPercent(-1)

	start := time.Now() // virtual; wall time is measured by the driver
	_ = start
	var si, sn int
	fmt.Sscanf(*shard, "%d/%d", &si, &sn)
	if sn < 1 {
		sn = 1
	}
	res := &result{Property: *prop, Tier: *tier, Seed: *seed, Shard: *shard, Replays: map[string]string{}}
	rep := monitor.NewReport()

	if *oneCase != "" {
		c, err := parseCase(*oneCase)
		if err != nil {
			fatal(err)
		}
		f, err := os.Create(*traceFile)
		if err != nil {
			fatal(err)
		}
		if _, err := engine.RunCase(c, rep, f); err != nil {
			fmt.Fprintf(f, "error: %v\n", err)
		}
		fmt.Fprintf(f, "\n=== violations (all properties) ===\n")
		for _, v := range rep.Violations {
			fmt.Fprintf(f, "%s [%s] scan %d: %s\n", v.Prop, v.Key, v.Scan, v.Msg)
		}
		f.Close()
		return
	}

	var prog *os.File
	if *progress != "" {
		prog, _ = os.Create(*progress)
	}
	note := func(s string) {
		if prog != nil {
			fmt.Fprintln(prog, s)
		}
	}

	if *mode == "direct" {
		// garbage collection is off (see above): collect by hand at every progress note, i.e. between replayed histories
		d := direct.Run(*prop, *tier, *seed, si, sn, rep, func(s string) { note(s); runtime.GC() })
		res.Cases = d.Evaluations
		res.Exhaustive = d.Exhaustive
		// witnesses for violations found while replaying histories
		for _, v := range rep.Violations {
			if v.Prop != *prop || strings.HasPrefix(v.Case, "direct:") || *replayDir == "" || len(res.Replays) >= 4 {
				continue
			}
			if _, ok := res.Replays[v.Case]; ok {
				continue
			}
			c, err := parseCase(v.Case)
			if err != nil {
				continue
			}
			path := filepath.Join(*replayDir, strings.NewReplacer(":", "_", "+", "_", "@", "_").Replace(v.Case)+".txt")
			if f, err := os.Create(path); err == nil {
				r2 := monitor.NewReport()
				engine.RunCase(c, r2, f)
				fmt.Fprintf(f, "\n=== violations (all properties) ===\n")
				for _, v2 := range r2.Violations {
					fmt.Fprintf(f, "%s [%s] scan %d: %s\n", v2.Prop, v2.Key, v2.Scan, v2.Msg)
				}
				f.Close()
				res.Replays[v.Case] = path
			}
		}
	} else {
		cases := engine.Cases(*prop, *tier, *seed)
		for i, c := range cases {
			if i%sn != si {
				continue
			}
			note(c.ID())
			before := len(rep.Violations)
			n, err := engine.RunCase(c, rep, nil)
			if err != nil {
				res.Errors = append(res.Errors, fmt.Sprintf("%s: %v", c.ID(), err))
			}
			res.Cases++
			res.Scans += n
			runtime.GC()
			// witness for the first violations of this property in this shard
			if *replayDir != "" && len(res.Replays) < 4 {
				for _, v := range rep.Violations[before:] {
					if v.Prop == *prop {
						path := filepath.Join(*replayDir, strings.NewReplacer(":", "_", "+", "_").Replace(c.ID())+".txt")
						if f, err := os.Create(path); err == nil {
							r2 := monitor.NewReport()
							engine.RunCase(c, r2, f)
							fmt.Fprintf(f, "\n=== violations (all properties) ===\n")
							for _, v2 := range r2.Violations {
								fmt.Fprintf(f, "%s [%s] scan %d: %s\n", v2.Prop, v2.Key, v2.Scan, v2.Msg)
							}
							f.Close()
							res.Replays[c.ID()] = path
						}
						break
					}
				}
			}
		}
		note("done")
	}

	res.Cover = rep.Cover[*prop]
	res.DontCare = rep.DontCare[*prop]
	res.Counters = rep.Count[*prop]
	res.Samples = rep.Samples[*prop]
	res.Unmodelled = rep.Unmodelled
	for _, v := range rep.Violations {
		if v.Prop == *prop {
			res.Violations = append(res.Violations, v)
		}
	}
	sort.SliceStable(res.Violations, func(i, j int) bool { return res.Violations[i].Key < res.Violations[j].Key })
	b, _ := json.MarshalIndent(res, "", " ")
	if err := os.WriteFile(*out, b, 0o644); err != nil {
		fatal(err)
	}
}

func parseCase(s string) (engine.CaseSpec, error) {
	var c engine.CaseSpec
	if i := strings.Index(s, "@"); i >= 0 {
		c.Fault = s[i+1:]
		s = s[:i]
	}
	parts := strings.Split(s, ":")
	if len(parts) != 3 {
		return c, fmt.Errorf("bad case id %q", s)
	}
	c.Profile = parts[0]
	if i := strings.Index(c.Profile, "+"); i >= 0 {
		c.Pair = c.Profile[i+1:]
		c.Profile = c.Profile[:i]
	}
	fmt.Sscanf(parts[1], "%d", &c.Seed)
	fmt.Sscanf(parts[2], "%d", &c.Index)
	return c, nil
}

func fatal(err error) {
	f, _ := os.OpenFile("/dev/tty", os.O_WRONLY, 0)
	if f != nil {
		fmt.Fprintln(f, err)
	}
	os.Exit(2)
}
