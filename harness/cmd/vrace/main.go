// vrace is the race-detector workload: the real controller's RunForever loop (wall clock, millisecond
// intervals) against a thread-safe store, while an informer-like goroutine replaces and deep-reads the
// objects the listers hand out and a scraper reads the metrics endpoint. Build with -race -tags verif.
// Data races are reported by the Go race detector into GORACE's log_path; this program only reports
// what the workload did and whether the loop stopped when told to.
package main

import (
	"encoding/json"
	"flag"
	"fmt"
	"io"
	"math/rand"
	"net/http/httptest"
	"os"
	"runtime/debug"
	"sync"
	"sync/atomic"
	"time"

	"verifharness/sim"

	"github.com/atlassian/escalator/pkg/cloudprovider"
	"github.com/atlassian/escalator/pkg/cloudprovider/aws"
	"github.com/atlassian/escalator/pkg/controller"
	"github.com/aws/aws-sdk-go/service/autoscaling"
	"github.com/aws/aws-sdk-go/service/ec2"
	"github.com/prometheus/client_golang/prometheus/promhttp"
	log "github.com/sirupsen/logrus"
	jsonpatch "gopkg.in/evanphx/json-patch.v4"
	v1 "k8s.io/api/core/v1"
	apierrors "k8s.io/apimachinery/pkg/api/errors"
	"k8s.io/apimachinery/pkg/api/resource"
	metav1 "k8s.io/apimachinery/pkg/apis/meta/v1"
	"k8s.io/apimachinery/pkg/labels"
	"k8s.io/apimachinery/pkg/runtime"
	"k8s.io/apimachinery/pkg/runtime/schema"
	"k8s.io/apimachinery/pkg/types"
	"k8s.io/apimachinery/pkg/util/strategicpatch"
	"k8s.io/client-go/kubernetes/fake"
	v1lister "k8s.io/client-go/listers/core/v1"
	core "k8s.io/client-go/testing"
)

// store is a thread-safe object cache in the style of client-go's: objects are never modified in
// place, updates replace the pointer.
type store struct {
	mu    sync.RWMutex
	nodes map[string]*v1.Node
	pods  map[string]*v1.Pod
	rv    int

	updates, deletes, gets int64
	// pointers handed out earlier (a running scan may still hold them)
	handed []*v1.Node
}

func (s *store) putNode(n *v1.Node) {
	s.mu.Lock()
	s.rv++
	n.ResourceVersion = fmt.Sprint(s.rv)
	s.nodes[n.Name] = n
	s.mu.Unlock()
}

type podLister struct{ s *store }
type nodeLister struct{ s *store }

func (l podLister) List(labels.Selector) ([]*v1.Pod, error) {
	l.s.mu.RLock()
	defer l.s.mu.RUnlock()
	out := make([]*v1.Pod, 0, len(l.s.pods))
	for _, p := range l.s.pods {
		out = append(out, p)
	}
	return out, nil
}
func (l podLister) Pods(string) v1lister.PodNamespaceLister { panic("unused") }
func (l nodeLister) List(labels.Selector) ([]*v1.Node, error) {
	l.s.mu.Lock()
	defer l.s.mu.Unlock()
	out := make([]*v1.Node, 0, len(l.s.nodes))
	for _, n := range l.s.nodes {
		out = append(out, n)
	}
	l.s.handed = append(l.s.handed, out...)
	if len(l.s.handed) > 400 {
		l.s.handed = l.s.handed[len(l.s.handed)-400:]
	}
	return out, nil
}
func (l nodeLister) Get(string) (*v1.Node, error) { panic("unused") }

func (s *store) react(action core.Action) (bool, runtime.Object, error) {
	if action.GetResource().Resource != "nodes" {
		return true, nil, apierrors.NewMethodNotSupported(schema.GroupResource{Resource: action.GetResource().Resource}, action.GetVerb())
	}
	gr := schema.GroupResource{Resource: "nodes"}
	switch action.GetVerb() {
	case "get":
		name := action.(core.GetAction).GetName()
		atomic.AddInt64(&s.gets, 1)
		s.mu.RLock()
		n, ok := s.nodes[name]
		s.mu.RUnlock()
		if !ok {
			return true, nil, apierrors.NewNotFound(gr, name)
		}
		return true, n.DeepCopy(), nil
	case "update":
		sent := action.(core.UpdateAction).GetObject().(*v1.Node)
		s.mu.Lock()
		defer s.mu.Unlock()
		cur, ok := s.nodes[sent.Name]
		if !ok {
			return true, nil, apierrors.NewNotFound(gr, sent.Name)
		}
		if sent.ResourceVersion != "" && sent.ResourceVersion != cur.ResourceVersion {
			return true, nil, apierrors.NewConflict(gr, sent.Name, fmt.Errorf("the object has been modified"))
		}
		stored := sent.DeepCopy()
		s.rv++
		stored.ResourceVersion = fmt.Sprint(s.rv)
		s.nodes[sent.Name] = stored
		atomic.AddInt64(&s.updates, 1)
		return true, stored.DeepCopy(), nil
	case "patch":
		pa := action.(core.PatchAction)
		s.mu.Lock()
		defer s.mu.Unlock()
		cur, ok := s.nodes[pa.GetName()]
		if !ok {
			return true, nil, apierrors.NewNotFound(gr, pa.GetName())
		}
		old, _ := json.Marshal(cur)
		var merged []byte
		var err error
		switch pa.GetPatchType() {
		case types.JSONPatchType:
			var jp jsonpatch.Patch
			if jp, err = jsonpatch.DecodePatch(pa.GetPatch()); err == nil {
				merged, err = jp.Apply(old)
			}
		case types.MergePatchType:
			merged, err = jsonpatch.MergePatch(old, pa.GetPatch())
		default:
			merged, err = strategicpatch.StrategicMergePatch(old, pa.GetPatch(), &v1.Node{})
		}
		stored := &v1.Node{}
		if err == nil {
			err = json.Unmarshal(merged, stored)
		}
		if err != nil {
			return true, nil, apierrors.NewBadRequest(err.Error())
		}
		if stored.ResourceVersion != cur.ResourceVersion {
			return true, nil, apierrors.NewConflict(gr, pa.GetName(), fmt.Errorf("the object has been modified"))
		}
		s.rv++
		stored.ResourceVersion = fmt.Sprint(s.rv)
		s.nodes[pa.GetName()] = stored
		atomic.AddInt64(&s.updates, 1)
		return true, stored.DeepCopy(), nil
	case "delete":
		name := action.(core.DeleteAction).GetName()
		s.mu.Lock()
		defer s.mu.Unlock()
		if _, ok := s.nodes[name]; !ok {
			return true, nil, apierrors.NewNotFound(gr, name)
		}
		delete(s.nodes, name)
		atomic.AddInt64(&s.deletes, 1)
		return true, nil, nil
	}
	return true, nil, apierrors.NewMethodNotSupported(gr, action.GetVerb())
}

// lockedASG / lockedEC2 serialise access to the (single-threaded) simulated cloud.
type lockedASG struct {
	*sim.ASGService
	mu *sync.Mutex
}

func (l lockedASG) DescribeAutoScalingGroups(in *autoscaling.DescribeAutoScalingGroupsInput) (*autoscaling.DescribeAutoScalingGroupsOutput, error) {
	time.Sleep(500 * time.Microsecond) // a refresh takes time: scans get a noticeable duration, stops arrive mid-scan
	l.mu.Lock()
	defer l.mu.Unlock()
	return l.ASGService.DescribeAutoScalingGroups(in)
}
func (l lockedASG) SetDesiredCapacity(in *autoscaling.SetDesiredCapacityInput) (*autoscaling.SetDesiredCapacityOutput, error) {
	l.mu.Lock()
	defer l.mu.Unlock()
	return l.ASGService.SetDesiredCapacity(in)
}
func (l lockedASG) TerminateInstanceInAutoScalingGroup(in *autoscaling.TerminateInstanceInAutoScalingGroupInput) (*autoscaling.TerminateInstanceInAutoScalingGroupOutput, error) {
	l.mu.Lock()
	defer l.mu.Unlock()
	return l.ASGService.TerminateInstanceInAutoScalingGroup(in)
}
func (l lockedASG) CreateOrUpdateTags(in *autoscaling.CreateOrUpdateTagsInput) (*autoscaling.CreateOrUpdateTagsOutput, error) {
	l.mu.Lock()
	defer l.mu.Unlock()
	return l.ASGService.CreateOrUpdateTags(in)
}

type lockedEC2 struct {
	*sim.EC2Service
	mu *sync.Mutex
}

func (l lockedEC2) DescribeInstances(in *ec2.DescribeInstancesInput) (*ec2.DescribeInstancesOutput, error) {
	l.mu.Lock()
	defer l.mu.Unlock()
	return l.EC2Service.DescribeInstances(in)
}

type builder struct {
	c   *sim.Cloud
	mu  *sync.Mutex
	cfg []cloudprovider.NodeGroupConfig
}

func (b builder) Build() (cloudprovider.CloudProvider, error) {
	return aws.VerifNewCloudProvider(lockedASG{&sim.ASGService{C: b.c}, b.mu}, lockedEC2{&sim.EC2Service{C: b.c}, b.mu}, b.cfg...)
}

type summary struct {
	Seed          int64   `json:"seed"`
	DurationS     float64 `json:"duration_s"`
	Updates       int64   `json:"node_updates"`
	Deletes       int64   `json:"node_deletes"`
	Gets          int64   `json:"node_gets"`
	Replacements  int64   `json:"informer_replacements"`
	DeepReads     int64   `json:"deep_reads"`
	Scrapes       int64   `json:"metric_scrapes"`
	CloudCalls    int     `json:"cloud_calls"`
	SetDesired    int     `json:"set_desired_calls"`
	Terminations  int     `json:"terminate_calls"`
	StopLatencyMs float64 `json:"stop_latency_ms"`
	CallsAfterStop int64  `json:"calls_after_loop_returned"`
	Stopped       bool    `json:"stopped"`
	LoopError     string  `json:"loop_error"`
	Panic         string  `json:"panic"`
	Unmodelled    string  `json:"unmodelled,omitempty"`
	PanicStack    string  `json:"panic_stack,omitempty"`
}

func main() {
	seed := flag.Int64("seed", 1, "seed")
	dur := flag.Duration("duration", 8*time.Second, "how long to run the workload")
	out := flag.String("out", "", "summary file")
	flag.Parse()
	log.SetOutput(io.Discard)
	log.SetLevel(log.InfoLevel)
	log.StandardLogger().ExitFunc = func(code int) { panic(fmt.Sprintf("log.Fatal exit(%d)", code)) }
	r := rand.New(rand.NewSource(*seed))

	groups := []controller.NodeGroupOptions{
		{Name: "alpha", LabelKey: "customer", LabelValue: "alpha", CloudProviderGroupName: "asg-0", MinNodes: 1, MaxNodes: 12,
			TaintLowerCapacityThresholdPercent: 25, TaintUpperCapacityThresholdPercent: 50, ScaleUpThresholdPercent: 75,
			SlowNodeRemovalRate: 1, FastNodeRemovalRate: 3, SoftDeleteGracePeriod: "10ms", HardDeleteGracePeriod: "2s", ScaleUpCoolDownPeriod: "40ms", TaintEffect: "NoExecute"},
		{Name: "default", LabelKey: "customer", LabelValue: "beta", CloudProviderGroupName: "asg-1", MinNodes: 0, MaxNodes: 0,
			TaintLowerCapacityThresholdPercent: 10, TaintUpperCapacityThresholdPercent: 40, ScaleUpThresholdPercent: 70,
			SlowNodeRemovalRate: 2, FastNodeRemovalRate: 5, SoftDeleteGracePeriod: "10ms", HardDeleteGracePeriod: "1s", ScaleUpCoolDownPeriod: "25ms", ScaleOnStarve: true, MaxNodeAge: "3s"},
	}
	j := &sim.Journal{}
	j.EndScan()
	cloud := sim.NewCloud(j, &sim.FaultPlan{})
	var cloudMu sync.Mutex
	st := &store{nodes: map[string]*v1.Node{}, pods: map[string]*v1.Pod{}}
	var cfgs []cloudprovider.NodeGroupConfig
	for gi, g := range groups {
		cloud.ASGs[g.CloudProviderGroupName] = &sim.ASG{Name: g.CloudProviderGroupName, Min: 0, Max: 12, Desired: 0, Subnets: "subnet-a", Tags: map[string]string{}, Tag: string(rune('a' + gi))}
		cfgs = append(cfgs, cloudprovider.NodeGroupConfig{Name: g.Name, GroupID: g.CloudProviderGroupName})
	}
	addNode := func(gi int) {
		cloudMu.Lock()
		g := cloud.ASGs[groups[gi].CloudProviderGroupName]
		if int64(len(g.Instances)) >= g.Max {
			cloudMu.Unlock()
			return
		}
		inst := cloud.Launch(g, "us-east-1a")
		if int64(len(g.Instances)) > g.Desired {
			g.Desired = int64(len(g.Instances))
		}
		pid := sim.ProviderID(inst)
		cloudMu.Unlock()
		alloc := v1.ResourceList{v1.ResourceCPU: resource.MustParse("4"), v1.ResourceMemory: resource.MustParse("16Gi")}
		st.putNode(&v1.Node{ObjectMeta: metav1.ObjectMeta{Name: sim.NodeNameFor(inst.ID), Labels: map[string]string{"customer": groups[gi].LabelValue},
			Annotations: map[string]string{"hb": "0"}, CreationTimestamp: metav1.NewTime(time.Now().Add(-time.Duration(r.Intn(5000)) * time.Millisecond))},
			Spec: v1.NodeSpec{ProviderID: pid, Taints: []v1.Taint{{Key: "dedicated", Value: "x", Effect: v1.TaintEffectPreferNoSchedule}}},
			Status: v1.NodeStatus{Allocatable: alloc}})
	}
	for gi := range groups {
		for i := 0; i < 6; i++ {
			addNode(gi)
		}
	}
	client := &fake.Clientset{}
	client.AddReactor("*", "*", st.react)
	stop := make(chan struct{})
	opts := controller.Opts{K8SClient: client, NodeGroups: groups, CloudProviderBuilder: builder{cloud, &cloudMu, cfgs}, ScanInterval: 2 * time.Millisecond}
	ctl, err := controller.VerifNewController(opts, podLister{st}, nodeLister{st}, stop)
	if err != nil {
		fmt.Fprintln(os.Stderr, "cannot build controller:", err)
		os.Exit(2)
	}
	sum := &summary{Seed: *seed}
	var wg sync.WaitGroup
	done := make(chan struct{})
	loopErr := make(chan error, 1)
	go func() {
		defer func() {
			if p := recover(); p != nil {
				stack := string(debug.Stack())
				sum.PanicStack = stack
				if m := sim.UnmodelledAWSCall(stack); m != "" {
					// not escalator's panic: an AWS operation the simulated cloud does not implement
					sum.Unmodelled = "aws operation " + m + " is not modelled by the simulated cloud"
				} else {
					sum.Panic = fmt.Sprint(p)
				}
				loopErr <- fmt.Errorf("panic: %v", p)
			}
		}()
		loopErr <- ctl.RunForever(true)
	}()

	// informer-like goroutine: replaces objects, moves the load around, deep-reads everything handed out
	var replacements, deepReads, scrapes int64
	wg.Add(1)
	go func() {
		defer wg.Done()
		rr := rand.New(rand.NewSource(*seed + 1))
		podSeq := 0
		for {
			select {
			case <-done:
				return
			default:
			}
			switch rr.Intn(6) {
			case 0, 1: // heartbeat: replace a node object with a modified copy
				st.mu.Lock()
				for name, n := range st.nodes {
					c := n.DeepCopy()
					c.Annotations["hb"] = fmt.Sprint(rr.Int())
					st.rv++
					c.ResourceVersion = fmt.Sprint(st.rv)
					st.nodes[name] = c
					atomic.AddInt64(&replacements, 1)
					break
				}
				st.mu.Unlock()
			case 2: // change the load of one group
				gi := rr.Intn(len(groups))
				st.mu.Lock()
				for k, p := range st.pods {
					if p.Labels["g"] == fmt.Sprint(gi) {
						delete(st.pods, k)
					}
				}
				var names []string
				for name, n := range st.nodes {
					if n.Labels["customer"] == groups[gi].LabelValue {
						names = append(names, name)
					}
				}
				n := rr.Intn(30)
				for i := 0; i < n; i++ {
					podSeq++
					p := &v1.Pod{ObjectMeta: metav1.ObjectMeta{Name: fmt.Sprintf("p%d", podSeq), Namespace: "ns", Labels: map[string]string{"g": fmt.Sprint(gi)}},
						Spec: v1.PodSpec{Containers: []v1.Container{{Resources: v1.ResourceRequirements{Requests: v1.ResourceList{
							v1.ResourceCPU: resource.MustParse("1"), v1.ResourceMemory: resource.MustParse("2Gi")}}}}},
						Status: v1.PodStatus{Phase: v1.PodRunning}}
					if gi == 0 {
						p.Spec.NodeSelector = map[string]string{"customer": "alpha"}
					}
					if len(names) > 0 && rr.Intn(4) != 0 {
						p.Spec.NodeName = names[rr.Intn(len(names))]
					} else {
						p.Status.Phase = v1.PodPending
					}
					st.pods[p.Namespace+"/"+p.Name] = p
				}
				st.mu.Unlock()
			case 3: // keep the groups populated
				gi := rr.Intn(len(groups))
				st.mu.RLock()
				cnt := 0
				for _, n := range st.nodes {
					if n.Labels["customer"] == groups[gi].LabelValue {
						cnt++
					}
				}
				st.mu.RUnlock()
				if cnt < 5 {
					addNode(gi)
				}
			default: // deep-read every object a scan may be holding
				st.mu.RLock()
				held := append([]*v1.Node(nil), st.handed...)
				var pods []*v1.Pod
				for _, p := range st.pods {
					pods = append(pods, p)
				}
				st.mu.RUnlock()
				for _, n := range held {
					if b, err := n.Marshal(); err == nil {
						_ = len(b)
					}
					atomic.AddInt64(&deepReads, 1)
				}
				for _, p := range pods {
					_, _ = p.Marshal()
				}
			}
			time.Sleep(200 * time.Microsecond)
		}
	}()
	// scraper
	wg.Add(1)
	go func() {
		defer wg.Done()
		h := promhttp.Handler()
		for {
			select {
			case <-done:
				return
			default:
			}
			rec := httptest.NewRecorder()
			h.ServeHTTP(rec, httptest.NewRequest("GET", "/metrics", nil))
			atomic.AddInt64(&scrapes, 1)
			time.Sleep(time.Millisecond)
		}
	}()

	start := time.Now()
	var lerr error
	early := false
	select {
	case lerr = <-loopErr:
		early = true
	case <-time.After(*dur):
	}
	t0 := time.Now()
	if !early {
		close(stop)
		select {
		case lerr = <-loopErr:
			sum.Stopped = true
			sum.StopLatencyMs = float64(time.Since(t0).Microseconds()) / 1000
		case <-time.After(30 * time.Second):
			sum.Stopped = false
			sum.StopLatencyMs = -1
		}
	}
	// once RunForever has returned nothing of escalator may still be running: no API call may arrive any more
	// (the informer-like goroutine and the scraper never go through the client or the cloud)
	callsAt := func() int64 {
		cloudMu.Lock()
		n := int64(len(j.Events))
		cloudMu.Unlock()
		return n + atomic.LoadInt64(&st.updates) + atomic.LoadInt64(&st.deletes) + atomic.LoadInt64(&st.gets)
	}
	before := callsAt()
	time.Sleep(400 * time.Millisecond)
	sum.CallsAfterStop = callsAt() - before
	close(done)
	wg.Wait()
	if lerr != nil {
		sum.LoopError = lerr.Error()
	}
	sum.DurationS = time.Since(start).Seconds()
	sum.Updates, sum.Deletes, sum.Gets = atomic.LoadInt64(&st.updates), atomic.LoadInt64(&st.deletes), atomic.LoadInt64(&st.gets)
	sum.Replacements, sum.DeepReads, sum.Scrapes = replacements, deepReads, scrapes
	cloudMu.Lock()
	sum.CloudCalls = len(j.Events)
	for _, e := range j.Events {
		switch e.API {
		case sim.AwsSetDes:
			sum.SetDesired++
		case sim.AwsTermASG:
			sum.Terminations++
		}
	}
	cloudMu.Unlock()
	b, _ := json.MarshalIndent(sum, "", " ")
	if *out != "" {
		os.WriteFile(*out, b, 0o644)
	} else {
		fmt.Println(string(b))
	}
}
