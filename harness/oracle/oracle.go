// Package oracle is an independent, exact re-statement of the properties: group
// membership, pod requests, utilisation (math/big), bands, reaper eligibility and
// expected scale-up sizes. It is written from the property statements and the user
// documentation, not from escalator's code, and shares no code with it.
package oracle

import (
	"math/big"
	"sort"
	"time"

	v1 "k8s.io/api/core/v1"
	"k8s.io/apimachinery/pkg/api/resource"
)

const (
	EscalatorTaint = "atlassian.com/escalator"
	ForceTaint     = "atlassian.com/escalator-force"
	NoDeleteAnno   = "atlassian.com/no-delete"
)

// Cfg is a node group's configuration as the oracle sees it.
type Cfg struct {
	Name          string
	LabelKey      string
	LabelValue    string
	ASG           string
	Min, Max      int // effective (after auto-discovery)
	AutoDiscover  bool
	Lower, Upper  int
	ScaleUp       int
	Slow, Fast    int
	Soft, Hard    time.Duration
	CoolDown      time.Duration
	MaxNodeAge    time.Duration
	Effect        v1.TaintEffect
	ScaleOnStarve bool
	Dry           bool
	Fleet         bool
}

func (c *Cfg) IsDefault() bool { return c.Name == "default" }

// ---- membership (C14) ---------------------------------------------------------

func IsDaemonSet(p *v1.Pod) bool {
	for _, o := range p.OwnerReferences {
		if o.Kind == "DaemonSet" {
			return true
		}
	}
	return false
}

func IsStatic(p *v1.Pod) bool { return p.Annotations["kubernetes.io/config.source"] == "file" }

// PodInGroup is the documented attribution rule.
func PodInGroup(c *Cfg, p *v1.Pod) bool {
	if IsDaemonSet(p) {
		return false
	}
	if c.IsDefault() {
		if IsStatic(p) {
			return false
		}
		if len(p.Spec.NodeSelector) != 0 {
			return false
		}
		a := p.Spec.Affinity
		return a == nil || (a.NodeAffinity == nil && a.PodAffinity == nil && a.PodAntiAffinity == nil)
	}
	if v, ok := p.Spec.NodeSelector[c.LabelKey]; ok && v == c.LabelValue {
		return true
	}
	a := p.Spec.Affinity
	if a == nil || a.NodeAffinity == nil || a.NodeAffinity.RequiredDuringSchedulingIgnoredDuringExecution == nil {
		return false
	}
	for _, term := range a.NodeAffinity.RequiredDuringSchedulingIgnoredDuringExecution.NodeSelectorTerms {
		for _, ex := range term.MatchExpressions {
			if ex.Key == c.LabelKey && ex.Operator == v1.NodeSelectorOpIn {
				for _, v := range ex.Values {
					if v == c.LabelValue {
						return true
					}
				}
			}
		}
	}
	return false
}

func NodeInGroup(c *Cfg, n *v1.Node) bool {
	v, ok := n.Labels[c.LabelKey]
	return ok && v == c.LabelValue
}

// ---- exact quantities (C13) ----------------------------------------------------

func ratOf(q resource.Quantity) *big.Rat {
	d := q.AsDec()
	r := new(big.Rat).SetInt(d.UnscaledBig())
	scale := int64(d.Scale())
	ten := big.NewInt(10)
	if scale > 0 {
		den := new(big.Int).Exp(ten, big.NewInt(scale), nil)
		r.Quo(r, new(big.Rat).SetInt(den))
	} else if scale < 0 {
		mul := new(big.Int).Exp(ten, big.NewInt(-scale), nil)
		r.Mul(r, new(big.Rat).SetInt(mul))
	}
	return r
}

func ceilRat(r *big.Rat) *big.Int {
	q, m := new(big.Int).DivMod(r.Num(), r.Denom(), new(big.Int))
	if m.Sign() != 0 {
		q.Add(q, big.NewInt(1))
	}
	return q
}

// MilliCeil is the quantity in thousandths, rounded up (how Kubernetes reports millicores).
func MilliCeil(q resource.Quantity) *big.Int {
	r := ratOf(q)
	r.Mul(r, big.NewRat(1000, 1))
	return ceilRat(r)
}

// UnitCeil is the quantity in whole units, rounded up (bytes).
func UnitCeil(q resource.Quantity) *big.Int { return ceilRat(ratOf(q)) }

func listVal(l v1.ResourceList, name v1.ResourceName, milli bool) *big.Int {
	q, ok := l[name]
	if !ok {
		return new(big.Int)
	}
	if milli {
		return MilliCeil(q)
	}
	return UnitCeil(q)
}

// PodRequest = max(sum of containers, largest init container) + overhead, per resource.
func PodRequest(p *v1.Pod) (cpuMilli, memBytes *big.Int) {
	cpuMilli, memBytes = new(big.Int), new(big.Int)
	for _, c := range p.Spec.Containers {
		cpuMilli.Add(cpuMilli, listVal(c.Resources.Requests, v1.ResourceCPU, true))
		memBytes.Add(memBytes, listVal(c.Resources.Requests, v1.ResourceMemory, false))
	}
	for _, c := range p.Spec.InitContainers {
		ic := listVal(c.Resources.Requests, v1.ResourceCPU, true)
		im := listVal(c.Resources.Requests, v1.ResourceMemory, false)
		if ic.Cmp(cpuMilli) > 0 {
			cpuMilli = ic
		}
		if im.Cmp(memBytes) > 0 {
			memBytes = im
		}
	}
	if p.Spec.Overhead != nil {
		cpuMilli = new(big.Int).Add(cpuMilli, listVal(p.Spec.Overhead, v1.ResourceCPU, true))
		memBytes = new(big.Int).Add(memBytes, listVal(p.Spec.Overhead, v1.ResourceMemory, false))
	}
	return
}

// PodsRequest sums PodRequest over pods.
func PodsRequest(pods []*v1.Pod) (cpu, mem *big.Int) {
	cpu, mem = new(big.Int), new(big.Int)
	for _, p := range pods {
		c, m := PodRequest(p)
		cpu.Add(cpu, c)
		mem.Add(mem, m)
	}
	return
}

// NodeAlloc is the allocatable cpu (millicores) and memory (bytes) of a node.
func NodeAlloc(n *v1.Node) (cpu, mem *big.Int) {
	return listVal(n.Status.Allocatable, v1.ResourceCPU, true), listVal(n.Status.Allocatable, v1.ResourceMemory, false)
}

func NodesCapacity(nodes []*v1.Node) (cpu, mem *big.Int) {
	cpu, mem = new(big.Int), new(big.Int)
	for _, n := range nodes {
		c, m := NodeAlloc(n)
		cpu.Add(cpu, c)
		mem.Add(mem, m)
	}
	return
}

// Percent = 100*req/cap as an exact rational; nil when cap is zero.
func Percent(req, cap *big.Int) *big.Rat {
	if cap.Sign() == 0 {
		return nil
	}
	r := new(big.Rat).SetFrac(new(big.Int).Mul(req, big.NewInt(100)), cap)
	return r
}

// ---- classification -----------------------------------------------------------------

type Class int

const (
	Untainted Class = iota
	Tainted
	ForceTainted
	Cordoned
)

func (c Class) String() string { return [...]string{"untainted", "tainted", "force", "cordoned"}[c] }

func hasTaint(n *v1.Node, key string) (v1.Taint, bool) {
	for _, t := range n.Spec.Taints {
		if t.Key == key {
			return t, true
		}
	}
	return v1.Taint{}, false
}

func HasEscalatorTaint(n *v1.Node) bool { _, ok := hasTaint(n, EscalatorTaint); return ok }
func HasForceTaint(n *v1.Node) bool     { _, ok := hasTaint(n, ForceTaint); return ok }

// Classify is the (non-dry) view classification: cordoned first, then force, then tainted.
func Classify(n *v1.Node) Class {
	if n.Spec.Unschedulable {
		return Cordoned
	}
	if HasForceTaint(n) {
		return ForceTainted
	}
	if HasEscalatorTaint(n) {
		return Tainted
	}
	return Untainted
}

// TaintTime reads the recorded taint time in Unix seconds as an exact integer.
// ok=false when the node has no escalator taint or the value is not a decimal integer.
// inRange=false when it is an integer that does not fit a signed 64-bit number
// (escalator cannot read those; the oracle still knows whether they lie in the past).
func TaintTime(n *v1.Node) (sec *big.Int, ok bool, inRange bool) {
	t, has := hasTaint(n, EscalatorTaint)
	if !has {
		return nil, false, false
	}
	s := t.Value
	if s == "" {
		return nil, false, false
	}
	body := s
	if body[0] == '+' || body[0] == '-' {
		body = body[1:]
	}
	if body == "" {
		return nil, false, false
	}
	for _, ch := range body {
		if ch < '0' || ch > '9' {
			return nil, false, false
		}
	}
	v, good := new(big.Int).SetString(s, 10)
	if !good {
		return nil, false, false
	}
	return v, true, v.IsInt64()
}

// Protected reports a non-empty no-delete annotation.
func Protected(n *v1.Node) bool { return n.Annotations[NoDeleteAnno] != "" }

// ElapsedMoreThan: is (now - sec seconds since epoch) strictly greater than d? Exact.
func ElapsedMoreThan(nowNanos int64, sec *big.Int, d time.Duration) bool {
	t := new(big.Int).Mul(sec, big.NewInt(1e9))
	el := new(big.Int).Sub(big.NewInt(nowNanos), t)
	return el.Cmp(big.NewInt(int64(d))) > 0
}

// ---- group view -------------------------------------------------------------------------

// GroupView is what one node group could see in a scan.
type GroupView struct {
	Cfg   *Cfg
	Nodes []*v1.Node // group nodes in served order
	Pods  []*v1.Pod  // group pods in served order
	Class map[string]Class
	// PodsOn counts non-DaemonSet group pods by node name
	PodsOn map[string]int

	Untainted, TaintedN, Force, Cordon []*v1.Node
}

// BuildView filters the served view down to the group, by the documented rule.
func BuildView(c *Cfg, nodes []*v1.Node, pods []*v1.Pod) *GroupView {
	gv := &GroupView{Cfg: c, Class: map[string]Class{}, PodsOn: map[string]int{}}
	for _, n := range nodes {
		if NodeInGroup(c, n) {
			gv.Nodes = append(gv.Nodes, n)
		}
	}
	for _, p := range pods {
		if PodInGroup(c, p) {
			gv.Pods = append(gv.Pods, p)
			gv.PodsOn[p.Spec.NodeName]++
		}
	}
	for _, n := range gv.Nodes {
		cl := Classify(n)
		gv.Class[n.Name] = cl
		switch cl {
		case Untainted:
			gv.Untainted = append(gv.Untainted, n)
		case Tainted:
			gv.TaintedN = append(gv.TaintedN, n)
		case ForceTainted:
			gv.Force = append(gv.Force, n)
		case Cordoned:
			gv.Cordon = append(gv.Cordon, n)
		}
	}
	return gv
}

func (gv *GroupView) Node(name string) *v1.Node {
	for _, n := range gv.Nodes {
		if n.Name == name {
			return n
		}
	}
	return nil
}

func (gv *GroupView) Empty(name string) bool { return gv.PodsOn[name] == 0 }

// RemovalClause says by which clause of C01 a view node may be removed at time now
// ("" = not removable).
func (gv *GroupView) RemovalClause(n *v1.Node, nowNanos int64) string {
	switch gv.Class[n.Name] {
	case Cordoned, Untainted:
		return ""
	case ForceTainted:
		if gv.Empty(n.Name) {
			return "c"
		}
		return ""
	}
	sec, ok, _ := TaintTime(n)
	if !ok {
		return ""
	}
	if ElapsedMoreThan(nowNanos, sec, gv.Cfg.Hard) {
		return "b"
	}
	if ElapsedMoreThan(nowNanos, sec, gv.Cfg.Soft) && gv.Empty(n.Name) {
		return "a"
	}
	return ""
}

// ---- the decision --------------------------------------------------------------------------

// Stage says how far a fault-free scan of the group gets.
type Stage string

const (
	StNothing   Stage = "no-nodes-no-pods"
	StBelowMinN Stage = "node-count-below-min"
	StAboveMaxN Stage = "node-count-above-max"
	StBelowMinU Stage = "untainted-below-min"
	StCapZero   Stage = "capacity-zero"
	StLocked    Stage = "locked"
	StDecide    Stage = "decision"
)

type Tri int

const (
	DontCare Tri = iota
	Must
	MustNot
)

// Plan is the expected behaviour of one group in one fault-free, fresh-view, non-dry scan.
type Plan struct {
	Stage Stage
	// utilisation
	CPUReq, MemReq, CPUCap, MemCap *big.Int
	U                              *big.Rat // max(cpu%, mem%); nil when capacity is zero
	Band                           string   // fast | slow | hold | up | zero-idle
	BandDontCare                   string   // non-empty: the band is not judged, and why
	Starve, Age                    Tri
	// expectations (valid when the fields above say so)
	Taints     int // taint-adds expected for fast/slow
	UpMin      int // smallest sufficient number of nodes to bring into service
	UpKnown    bool
	FromZero   bool
	ForceReap  []string // force-tainted empty nodes
	Reap       []string // eligible, unprotected tainted nodes (when the reaper runs)
	ReaperRuns bool
	// nodes-needed for the below-min branch
	BelowMinNeed int
}

// Input bundles what the decision depends on.
type Input struct {
	View      *GroupView
	NowNanos  int64
	Locked    bool
	CachedCPU *big.Int // node size remembered by the controller in this lifetime (nil: none)
	CachedMem *big.Int
}

func ratInt(n int64) *big.Rat { return new(big.Rat).SetInt64(n) }

// dyadic reports whether req/cap is exactly representable in binary floating point with a
// short mantissa, so that float and rational evaluation of 100*req/cap agree exactly.
func dyadic(req, cap *big.Int) bool {
	if cap.Sign() == 0 {
		return false
	}
	r := new(big.Rat).SetFrac(req, cap)
	den := r.Denom()
	// power of two?
	if den.BitLen() > 21 || r.Num().BitLen() > 30 {
		return false
	}
	return new(big.Int).And(den, new(big.Int).Sub(den, big.NewInt(1))).Sign() == 0
}

// nearThreshold: |u - t| <= t * 1e-12 (the float64 evaluation may fall either side).
func nearThreshold(u *big.Rat, t int) bool {
	tr := ratInt(int64(t))
	diff := new(big.Rat).Sub(u, tr)
	diff.Abs(diff)
	eps := new(big.Rat).Mul(tr, big.NewRat(1, 1000000000000))
	return diff.Cmp(eps) <= 0
}

func maxRat(a, b *big.Rat) *big.Rat {
	if a.Cmp(b) >= 0 {
		return a
	}
	return b
}

// EqualSize reports whether all nodes have the same allocatable cpu and memory, and returns it.
func EqualSize(nodes []*v1.Node) (cpu, mem *big.Int, ok bool) {
	if len(nodes) == 0 {
		return nil, nil, false
	}
	cpu, mem = NodeAlloc(nodes[0])
	for _, n := range nodes[1:] {
		c, m := NodeAlloc(n)
		if c.Cmp(cpu) != 0 || m.Cmp(mem) != 0 {
			return nil, nil, false
		}
	}
	return cpu, mem, true
}

// NodesNeeded is the smallest n with 100*req <= t*n*size for both resources.
func NodesNeeded(cpuReq, memReq, cpuSize, memSize *big.Int, threshold int) (int, bool) {
	if cpuSize.Sign() <= 0 || memSize.Sign() <= 0 {
		return 0, false
	}
	need := func(req, size *big.Int) *big.Int {
		num := new(big.Int).Mul(req, big.NewInt(100))
		den := new(big.Int).Mul(size, big.NewInt(int64(threshold)))
		return ceilRat(new(big.Rat).SetFrac(num, den))
	}
	a, b := need(cpuReq, cpuSize), need(memReq, memSize)
	if b.Cmp(a) > 0 {
		a = b
	}
	if !a.IsInt64() || a.Int64() > 1<<30 {
		return 0, false
	}
	return int(a.Int64()), true
}

// WithinFloatResolution reports whether n nodes miss sufficiency only by an amount float64 cannot resolve:
// 100*req exceeds t*n*size by a factor of at most 1+1e-12, for each resource.
func WithinFloatResolution(cpuReq, memReq, cpuSize, memSize *big.Int, threshold, n int) bool {
	if n <= 0 {
		return false
	}
	ok := func(req, size *big.Int) bool {
		lhs := new(big.Rat).SetInt(new(big.Int).Mul(req, big.NewInt(100)))
		rhs := new(big.Rat).SetInt(new(big.Int).Mul(size, big.NewInt(int64(threshold)*int64(n))))
		rhs.Mul(rhs, new(big.Rat).SetFrac(big.NewInt(1000000000001), big.NewInt(1000000000000)))
		return lhs.Cmp(rhs) <= 0
	}
	return ok(cpuReq, cpuSize) && ok(memReq, memSize)
}

// Decide computes the plan.
func Decide(in Input) *Plan {
	gv := in.View
	c := gv.Cfg
	p := &Plan{}
	N, U, T := len(gv.Nodes), len(gv.Untainted), len(gv.TaintedN)
	_ = T
	p.CPUReq, p.MemReq = PodsRequest(gv.Pods)
	p.CPUCap, p.MemCap = NodesCapacity(gv.Untainted)

	if N == 0 && len(gv.Pods) == 0 {
		p.Stage = StNothing
		return p
	}
	if N < c.Min {
		p.Stage = StBelowMinN
		return p
	}
	if N > c.Max {
		p.Stage = StAboveMaxN
		return p
	}
	if U < c.Min {
		p.Stage = StBelowMinU
		p.BelowMinNeed = c.Min - U
		return p
	}
	allZero := p.CPUReq.Sign() == 0 && p.MemReq.Sign() == 0 && p.CPUCap.Sign() == 0 && p.MemCap.Sign() == 0 && U == 0
	capZero := p.CPUCap.Sign() == 0 || p.MemCap.Sign() == 0
	if capZero && !allZero && U > 0 {
		p.Stage = StCapZero
		return p
	}
	if in.Locked {
		p.Stage = StLocked
		return p
	}
	p.Stage = StDecide

	// force-tainted empties are removed first in every unlocked decision
	for _, n := range gv.Force {
		if gv.Empty(n.Name) {
			p.ForceReap = append(p.ForceReap, n.Name)
		}
	}
	reap := func() {
		p.ReaperRuns = true
		for _, n := range gv.TaintedN {
			if Protected(n) {
				continue
			}
			sec, ok, inRange := TaintTime(n)
			if !ok || !inRange {
				continue
			}
			if ElapsedMoreThan(in.NowNanos, sec, c.Hard) || (ElapsedMoreThan(in.NowNanos, sec, c.Soft) && gv.Empty(n.Name)) {
				p.Reap = append(p.Reap, n.Name)
			}
		}
	}

	switch {
	case allZero:
		p.Band = "zero-idle"
	case U == 0:
		// requests but no untainted capacity: scale up from zero
		p.Band = "up"
		p.FromZero = true
		if in.CachedCPU != nil && in.CachedCPU.Sign() > 0 && in.CachedMem != nil && in.CachedMem.Sign() > 0 {
			if n, ok := NodesNeeded(p.CPUReq, p.MemReq, in.CachedCPU, in.CachedMem, c.ScaleUp); ok {
				p.UpMin, p.UpKnown = n, true
			}
		} else {
			p.UpMin, p.UpKnown = 1, true
		}
	default:
		cpuPct, memPct := Percent(p.CPUReq, p.CPUCap), Percent(p.MemReq, p.MemCap)
		p.U = maxRat(cpuPct, memPct)
		exact := dyadic(p.CPUReq, p.CPUCap) && dyadic(p.MemReq, p.MemCap)
		lower, upper, up := ratInt(int64(c.Lower)), ratInt(int64(c.Upper)), ratInt(int64(c.ScaleUp))
		for _, t := range []int{c.Lower, c.Upper, c.ScaleUp} {
			// either resource close to a threshold can flip the float evaluation
			if (nearThreshold(cpuPct, t) || nearThreshold(memPct, t)) && !exact {
				p.BandDontCare = "utilisation within 1e-12 of a threshold and not exactly representable"
			}
		}
		if p.U.Cmp(up) == 0 {
			p.BandDontCare = "utilisation exactly on the scale-up threshold (statement says above, documentation says at)"
		}
		switch {
		case p.U.Cmp(lower) < 0:
			p.Band = "fast"
		case p.U.Cmp(upper) < 0:
			p.Band = "slow"
		case p.U.Cmp(up) > 0:
			p.Band = "up"
			if cpu, mem, ok := EqualSize(gv.Untainted); ok {
				if n, ok := NodesNeeded(p.CPUReq, p.MemReq, cpu, mem, c.ScaleUp); ok {
					p.UpMin, p.UpKnown = n-U, true
				}
			}
		default:
			p.Band = "hold"
		}
	}

	// documented exceptions
	p.Starve = starve(gv, c, U)
	p.Age = nodeAge(gv, c, U, in.NowNanos)

	switch p.Band {
	case "fast":
		p.Taints = minInt(c.Fast, U-c.Min)
	case "slow":
		p.Taints = minInt(c.Slow, U-c.Min)
	}
	if p.Taints < 0 {
		p.Taints = 0
	}
	if p.Band != "up" {
		reap()
	}
	return p
}

func minInt(a, b int) int {
	if a < b {
		return a
	}
	return b
}

// starve: clear-cut cases only. Must: a pending group pod requests more cpu (or memory) than the
// allocatable of every untainted node, and untainted < max. MustNot: the option is off, or no
// pending pod, or untainted >= max.
func starve(gv *GroupView, c *Cfg, U int) Tri {
	if !c.ScaleOnStarve || U >= c.Max {
		return MustNot
	}
	var maxCPU, maxMem = new(big.Int), new(big.Int)
	for _, n := range gv.Untainted {
		cpu, mem := NodeAlloc(n)
		if cpu.Cmp(maxCPU) > 0 {
			maxCPU = cpu
		}
		if mem.Cmp(maxMem) > 0 {
			maxMem = mem
		}
	}
	pending := false
	for _, p := range gv.Pods {
		if p.Status.Phase != v1.PodPending {
			continue
		}
		cpu, mem := PodRequest(p)
		if cpu.Sign() == 0 && mem.Sign() == 0 {
			continue
		}
		pending = true
		if cpu.Cmp(maxCPU) > 0 || mem.Cmp(maxMem) > 0 {
			return Must
		}
	}
	if !pending {
		return MustNot
	}
	return DontCare
}

// nodeAge: the documented trigger — the group sits at its minimum and an untainted node is older
// than max_node_age. The undocumented refinement (no trigger while tainted nodes exist) is a don't-care.
func nodeAge(gv *GroupView, c *Cfg, U int, nowNanos int64) Tri {
	if c.MaxNodeAge <= 0 || U != c.Min || U == 0 {
		return MustNot
	}
	old := false
	for _, n := range gv.Untainted {
		age := nowNanos - n.CreationTimestamp.Time.UnixNano()
		if n.CreationTimestamp.IsZero() {
			return DontCare
		}
		if age > int64(c.MaxNodeAge) {
			old = true
		}
	}
	if !old {
		return MustNot
	}
	if len(gv.TaintedN) > 0 {
		return DontCare
	}
	return Must
}

// OldestFirstOK checks C08: no node left untainted is strictly older than a tainted one,
// ignoring nodes whose taint write was attempted and failed.
func OldestFirstOK(untainted []*v1.Node, taintedNames map[string]bool, attemptedFailed map[string]bool) (older, newer string, ok bool) {
	var newestTainted *v1.Node
	for _, n := range untainted {
		if taintedNames[n.Name] {
			if newestTainted == nil || newestTainted.CreationTimestamp.Time.Before(n.CreationTimestamp.Time) {
				newestTainted = n
			}
		}
	}
	if newestTainted == nil {
		return "", "", true
	}
	for _, n := range untainted {
		if taintedNames[n.Name] || attemptedFailed[n.Name] {
			continue
		}
		if n.CreationTimestamp.Time.Before(newestTainted.CreationTimestamp.Time) {
			return n.Name, newestTainted.Name, false
		}
	}
	return "", "", true
}

// NewestFirstOK checks C07's ordering: no tainted node left tainted is strictly newer than an untainted one.
func NewestFirstOK(tainted []*v1.Node, untaintedNames map[string]bool, attemptedFailed map[string]bool) (newer, older string, ok bool) {
	var oldestUntainted *v1.Node
	for _, n := range tainted {
		if untaintedNames[n.Name] {
			if oldestUntainted == nil || n.CreationTimestamp.Time.Before(oldestUntainted.CreationTimestamp.Time) {
				oldestUntainted = n
			}
		}
	}
	if oldestUntainted == nil {
		return "", "", true
	}
	for _, n := range tainted {
		if untaintedNames[n.Name] || attemptedFailed[n.Name] {
			continue
		}
		if oldestUntainted.CreationTimestamp.Time.Before(n.CreationTimestamp.Time) {
			return n.Name, oldestUntainted.Name, false
		}
	}
	return "", "", true
}

// SortedNames is a small helper for stable output.
func SortedNames(m map[string]bool) []string {
	out := make([]string, 0, len(m))
	for k := range m {
		out = append(out, k)
	}
	sort.Strings(out)
	return out
}

// RemovalClauseIgnoringCordon is RemovalClause as if the node were not cordoned (used only to
// label what kind of cordoned node a scan met).
func (gv *GroupView) RemovalClauseIgnoringCordon(n *v1.Node, nowNanos int64) string {
	if HasForceTaint(n) {
		if gv.Empty(n.Name) {
			return "c"
		}
		return ""
	}
	sec, ok, _ := TaintTime(n)
	if !ok {
		return ""
	}
	if ElapsedMoreThan(nowNanos, sec, gv.Cfg.Hard) {
		return "b"
	}
	if ElapsedMoreThan(nowNanos, sec, gv.Cfg.Soft) && gv.Empty(n.Name) {
		return "a"
	}
	return ""
}
