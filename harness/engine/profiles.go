package engine

import (
	"fmt"
	"time"

	"verifharness/oracle"
	"verifharness/sim"

	v1 "k8s.io/api/core/v1"
	"k8s.io/apimachinery/pkg/api/resource"
	metav1 "k8s.io/apimachinery/pkg/apis/meta/v1"
)

func baseOps() map[string]int {
	return map[string]int{"load": 10, "load-low": 3, "load-up": 3, "load-hold": 1, "complete": 3, "occupy": 1, "cordon": 1, "uncordon": 1,
		"force-taint": 1, "unforce": 0, "ext-taint-time": 1, "ext-taint-odd": 1, "foreign-taint": 1, "annotate": 1, "annotate-empty": 0,
		"unannotate": 1, "asg-bounds": 1, "pending-big": 1, "foreign-pod": 1, "resize-pod": 1, "resize-nodes": 0, "drain-group": 0,
		"asg-max-down": 1, "refresh-fails": 1, "extra-node": 1, "pod-terminating": 1}
}

func with(m map[string]int, kv ...interface{}) map[string]int {
	out := map[string]int{}
	for k, v := range m {
		out[k] = v
	}
	for i := 0; i+1 < len(kv); i += 2 {
		out[kv[i].(string)] = kv[i+1].(int)
	}
	return out
}

// Profiles are the generator settings; every property's check runs a list of them.
var Profiles = map[string]Knobs{}

func init() {
	general := Knobs{Name: "general", MinGroups: 1, MaxGroups: 2, Scans: 30, MaxNodes: 10, PFleet: 0.15, PAuto: 0.2, PMaxBelowASG: 0.25,
		PFault: 0.08, PCrash: 0.02, PStale: 0.05, PRestart: 0.04, PMidScan: 0.03, PBoundary: 0.45, PStarve: 0.2, PMaxAge: 0.2, PDefault: 0.15, PDebugLog: 0.1,
		PTies: 0.15, POps: 0.35, Ops: baseOps(), MinZero: 0.15}
	Profiles["general"] = general

	p := general
	p.Name = "reaper" // C01 C10 C19: tainted nodes crossing their grace periods, busy and empty, annotated, restarts
	p.ShortGrace = true
	p.PBoundary = 0.7
	p.PRestart = 0.08
	p.PFleet = 0
	p.Ops = with(baseOps(), "extra-node", 3, "foreign-pod", 3, "load", 4, "load-low", 8, "complete", 6, "occupy", 4, "ext-taint-time", 5, "ext-taint-odd", 2, "annotate", 3, "annotate-empty", 1, "unannotate", 2, "cordon", 2, "force-taint", 2, "load-up", 1)
	Profiles["reaper"] = p

	p = general
	p.Name = "lock" // C02: scale-ups followed by pressure inside the cool-down
	p.Setup = "scaleup-then-pressure"
	p.PBoundary = 0.6
	p.PRestart = 0.02
	p.PFault = 0.03
	p.PFleet = 0.25
	p.Ops = with(baseOps(), "load-up", 8, "load-low", 6, "cordon", 5, "uncordon", 1, "force-taint", 4, "ext-taint-time", 5, "complete", 4, "load", 4, "refresh-fails", 4)
	Profiles["lock"] = p

	p = general
	p.Name = "scaledown" // C03 C06 C08: taint bands, clamps, ordering
	p.PFleet = 0
	p.PTies = 0.4
	p.MaxNodes = 12
	p.PAuto = 0.3
	p.MinZero = 0.3
	p.Ops = with(baseOps(), "load", 14, "load-low", 8, "cordon", 2, "asg-bounds", 3, "load-up", 2)
	Profiles["scaledown"] = p

	p = general
	p.Name = "scaleup" // C04 C05 C07: scale-ups with tainted pools, clamps, force removals in the same scan
	p.PMaxBelowASG = 0.5
	p.Setup = "force-then-up"
	p.PTies = 0.3
	p.PMidScan = 0.08
	p.MaxNodes = 14
	p.Ops = with(baseOps(), "load-up", 10, "load", 8, "load-low", 5, "force-taint", 3, "ext-taint-time", 3, "complete", 3, "asg-max-down", 3, "refresh-fails", 2)
	Profiles["scaleup"] = p

	p = general
	p.Name = "fromzero"
	p.Setup = "from-zero"
	p.MinZero = 1
	p.PFleet = 0.1
	p.Ops = with(baseOps(), "load", 8, "load-up", 6, "load-low", 6, "complete", 5, "resize-nodes", 2, "drain-group", 2)
	p.ShortGrace = true
	p.PBoundary = 0.6
	Profiles["fromzero"] = p

	p = general
	p.Name = "cordon" // C09
	p.Ops = with(baseOps(), "cordon", 8, "uncordon", 4, "ext-taint-time", 4, "force-taint", 3, "annotate", 2, "load-low", 5, "complete", 4)
	p.ShortGrace = true
	p.PBoundary = 0.6
	Profiles["cordon"] = p

	p = general
	p.Name = "dry" // C11
	p.PGroupDry = 0.7
	p.PGlobalDry = 0.3
	p.MinGroups, p.MaxGroups = 1, 3
	p.ShortGrace = true
	p.PBoundary = 0.6
	p.Ops = with(baseOps(), "load-up", 5, "load-low", 6, "ext-taint-time", 5, "force-taint", 4, "complete", 4, "cordon", 2, "ext-taint-odd", 3)
	Profiles["dry"] = p

	p = general
	p.Name = "multi" // C12: two or three groups, pair runs
	p.MinGroups, p.MaxGroups = 2, 3
	p.PDefault = 0.5
	p.PFleet = 0
	p.PCrash = 0
	p.PFault = 0
	p.PStale = 0
	p.PRestart = 0
	p.PMidScan = 0
	p.StatelessClock = true
	p.SortedView = true
	p.ShortGrace = true
	p.Ops = with(baseOps(), "load-low", 5, "load-up", 4, "ext-taint-time", 3, "complete", 3, "label-drift", 0, "refresh-fails", 0, "foreign-pod", 3, "extra-node", 0)
	Profiles["multi"] = p

	p = general
	p.Name = "taints" // C15: foreign taints, stale views, cycles
	p.PStale = 0.2
	p.PMidScan = 0.2
	p.PFleet = 0
	p.Ops = with(baseOps(), "foreign-taint", 8, "load-low", 8, "load-up", 6, "load", 6, "annotate", 2)
	Profiles["taints"] = p

	p = general
	p.Name = "faults" // C20: dense faults, odd shapes, crashes
	p.PFault = 0.45
	p.PCrash = 0.05
	p.POddNode = 0.25
	p.PExternal = 0.1
	p.PFleet = 0.3
	p.PDebugLog = 0.3
	p.ShortGrace = true
	p.Ops = with(baseOps(), "ext-taint-odd", 4, "load-up", 5, "fleet-script", 2)
	p.PMidScan = 0.1
	Profiles["faults"] = p

	p = general
	p.Name = "bigreap" // C19 C10 C01: groups of 30-60 nodes, whole-group taint rates, mass expiry in one scan
	p.BigGroups = true
	p.MaxNodes = 60
	p.MinGroups, p.MaxGroups = 1, 1
	p.Scans = 14
	p.ShortGrace = true
	p.PBoundary = 0.8
	p.PFleet, p.PAuto = 0, 0.3
	p.PFault = 0.05
	p.Ops = with(baseOps(), "load-low", 14, "load", 2, "load-up", 1, "complete", 8, "ext-taint-time", 2, "annotate", 1, "asg-bounds", 3)
	Profiles["bigreap"] = p

	p = general
	p.Name = "fleet2" // C12: two or three groups scaling through launch templates, with fleet failures
	p.MinGroups, p.MaxGroups = 2, 3
	p.PFleet = 0.8
	p.Ops = with(baseOps(), "load-up", 10, "load", 5, "fleet-script", 5)
	Profiles["fleet2"] = p

	p = general
	p.Name = "enum" // C20 fault enumeration: fault-free base histories, every decision branch, short
	p.Scans = 10
	p.PFault, p.PCrash, p.PStale, p.PRestart, p.PMidScan = 0, 0, 0, 0, 0
	p.PFleet = 0.3
	p.ShortGrace = true
	p.PBoundary = 0.7
	p.PExternal = 0.05
	p.Setup = "force-then-up"
	p.Ops = with(baseOps(), "load-up", 6, "load-low", 6, "ext-taint-time", 5, "force-taint", 3, "complete", 4, "cordon", 1, "refresh-fails", 0)
	Profiles["enum"] = p

	p = general
	p.Name = "external" // C19: nodes that are not members of the cloud group
	p.PExternal = 1
	p.ShortGrace = true
	p.PBoundary = 0.7
	p.PFleet = 0
	p.Ops = with(baseOps(), "load-low", 8, "ext-taint-time", 6, "complete", 5)
	Profiles["external"] = p

	p = general
	p.Name = "fleet" // C17 C18 at controller level
	p.PFleet = 1
	p.Ops = with(baseOps(), "load-up", 10, "load", 6, "fleet-script", 4)
	Profiles["fleet"] = p
}

// ProfileFor resolves a profile name; the suffix "-long" gives the same profile with three times the scans
// and larger groups (used by the thorough tier).
func ProfileFor(name string) (Knobs, bool) {
	long := false
	if len(name) > 5 && name[len(name)-5:] == "-long" {
		long = true
		name = name[:len(name)-5]
	}
	k, ok := Profiles[name]
	if ok && long {
		k.Scans *= 3
		if k.MaxNodes < 26 {
			k.MaxNodes = 26
		}
	}
	return k, ok
}

// directed performs the profile's scripted moves before scan s.
func (run *Run) directed(s int) {
	env := run.Env
	switch run.K.Setup {
	case "scaleup-then-pressure":
		if s%10 == 0 {
			for gi := range env.Groups {
				run.opLoad(gi, "up")
			}
		}
	case "force-then-up":
		if s%7 == 3 {
			for gi := range env.Groups {
				r := run.G[gi].rng
				// several empty force-tainted nodes and a load above the threshold in the same scan
				un := run.nodesByClass(gi, oracle.Untainted)
				k := 1 + r.Intn(3)
				for i := 0; i < k && i < len(un)-1; i++ {
					name := un[len(un)-1-i]
					for _, key := range env.GroupPodKeys(gi) {
						if env.K.Pods[key].Spec.NodeName == name {
							env.K.DeletePodObj(key)
						}
					}
					env.SetTaint(name, sim.ForceTaint, "", v1.TaintEffectNoSchedule)
				}
				run.opLoad(gi, "up")
				// keep the force-tainted nodes empty: the scheduler will not use them
				if k >= 2 && r.Intn(3) == 0 && run.nextFaults == nil {
					// the cloud refuses one of the later terminations of the batch
					run.nextFaults = &sim.FaultPlan{Ordinal: map[string]map[int]sim.FaultKind{sim.AwsTermASG: {2 + r.Intn(k-1): pick(r, sim.FServerErr, sim.FThrottle)}}}
				}
			}
		}
	case "from-zero":
		if s == 0 {
			for gi := range env.Groups {
				run.opLoad(gi, "random")
			}
		}
	}
	if run.K.POddNode > 0 && run.Master.Float64() < run.K.POddNode {
		run.oddShape()
	}
}

var oddProviderIDs = []string{"", "aws:///", "aws:///us-east-1a", "x", "aws:///us-east-1a/i-a000001/extra", "aws://", "/", "aws:///us-east-1a/", "gce://project/zone/name"}

// oddShape adds one strangely shaped object to a random group.
func (run *Run) oddShape() {
	env, m := run.Env, run.Master
	gi := m.Intn(len(env.Groups))
	spec := env.Groups[gi]
	now := time.Now()
	switch m.Intn(7) {
	case 0, 1:
		// a node with a malformed provider id, registered just now
		pid := pick(m, oddProviderIDs...)
		n := &v1.Node{ObjectMeta: metav1.ObjectMeta{Name: fmt.Sprintf("odd-%d-%d", gi, m.Intn(1000)),
			Labels: map[string]string{spec.Opts.LabelKey: spec.Opts.LabelValue}, CreationTimestamp: metav1.NewTime(now)},
			Spec: v1.NodeSpec{ProviderID: pid},
			Status: v1.NodeStatus{Allocatable: v1.ResourceList{
				v1.ResourceCPU: *resource.NewMilliQuantity(spec.NodeCPU, resource.DecimalSI), v1.ResourceMemory: *resource.NewQuantity(spec.NodeMem, resource.BinarySI)}}}
		env.K.PutNode(n)
		run.tracef("  odd: node %s providerID=%q", n.Name, pid)
	case 2:
		// a node without allocatable
		n := &v1.Node{ObjectMeta: metav1.ObjectMeta{Name: fmt.Sprintf("odd-na-%d-%d", gi, m.Intn(1000)),
			Labels: map[string]string{spec.Opts.LabelKey: spec.Opts.LabelValue}, CreationTimestamp: metav1.NewTime(now)},
			Spec: v1.NodeSpec{ProviderID: "aws:///us-east-1a/i-none"}}
		if m.Intn(2) == 0 {
			n.Status.Allocatable = v1.ResourceList{v1.ResourceCPU: *resource.NewMilliQuantity(0, resource.DecimalSI)}
		}
		env.K.PutNode(n)
		run.tracef("  odd: node %s without allocatable", n.Name)
	case 3:
		// a pod with partial affinity structures
		p := env.BuildPod(gi, 100, 1<<20, sim.ShapeSelector)
		switch m.Intn(4) {
		case 0:
			p.Spec.Affinity = &v1.Affinity{}
		case 1:
			p.Spec.Affinity = &v1.Affinity{NodeAffinity: &v1.NodeAffinity{}}
		case 2:
			p.Spec.Affinity = &v1.Affinity{NodeAffinity: &v1.NodeAffinity{RequiredDuringSchedulingIgnoredDuringExecution: &v1.NodeSelector{}}}
		case 3:
			p.Spec.Affinity = &v1.Affinity{NodeAffinity: &v1.NodeAffinity{RequiredDuringSchedulingIgnoredDuringExecution: &v1.NodeSelector{
				NodeSelectorTerms: []v1.NodeSelectorTerm{{}, {MatchExpressions: []v1.NodeSelectorRequirement{{Key: spec.Opts.LabelKey, Operator: v1.NodeSelectorOpIn}}}}}}}
		}
		env.AddPod(gi, p)
	case 4:
		// a pod without requests / without containers, bound to an unknown node
		p := env.BuildPod(gi, 0, 0, sim.ShapeSelector)
		if m.Intn(2) == 0 {
			p.Spec.Containers = nil
		} else {
			p.Spec.Containers[0].Resources = v1.ResourceRequirements{}
		}
		sim.Bind(p, "no-such-node")
		env.AddPod(gi, p)
	case 5:
		// a zero-capacity node
		g := env.ASGOf(gi)
		if g != nil && int64(len(g.Instances)) < g.Max {
			n := env.AddNode(gi, now)
			g.Desired = int64(len(g.Instances))
			env.K.MutateNode(n.Name, func(x *v1.Node) {
				x.Status.Allocatable = v1.ResourceList{v1.ResourceCPU: resource.MustParse("0"), v1.ResourceMemory: resource.MustParse("0")}
			})
			run.tracef("  odd: zero-capacity node %s", n.Name)
		}
	case 6:
		// absurd taint value on a random node
		if names := env.GroupNodeNames(gi); len(names) > 0 {
			env.SetTaint(names[m.Intn(len(names))], sim.EscalatorTaint, pick(m, oddTaintValues...), v1.TaintEffectNoSchedule)
		}
	}
}
