package engine

import (
	"fmt"
	"io"
	"strconv"
	"strings"
	"time"

	"verifharness/monitor"
	"verifharness/sim"

	v1 "k8s.io/api/core/v1"
	"k8s.io/apimachinery/pkg/api/resource"
)

// eventKey renders an event with every clock reading made relative to t0, so that two runs
// started at different virtual instants can be compared.
func eventKey(e *sim.Event, t0 int64) string {
	var b strings.Builder
	fmt.Fprintf(&b, "%s|%s|+%dms|err=%v", e.API, e.Target, (e.VTime-t0)/1e6, e.Err != "")
	switch e.API {
	case sim.AwsSetDes:
		fmt.Fprintf(&b, "|desired=%d", e.Desired)
	case sim.AwsTermASG:
		fmt.Fprintf(&b, "|dec=%v", e.Decrement != nil && *e.Decrement)
	case sim.AwsAttach, sim.AwsTermIns:
		fmt.Fprintf(&b, "|ids=%v", e.IDs)
	case sim.K8sUpdate:
		if e.Sent != nil {
			for _, t := range e.Sent.Spec.Taints {
				val := t.Value
				if t.Key == sim.EscalatorTaint {
					if n, err := strconv.ParseInt(t.Value, 10, 64); err == nil {
						val = fmt.Sprintf("t0+%d", n-t0/1e9)
					}
				}
				fmt.Fprintf(&b, "|%s=%s:%s", t.Key, val, t.Effect)
			}
		}
	case sim.ListPods, sim.ListNodes:
		fmt.Fprintf(&b, "|n=%d", e.Count)
	}
	return b.String()
}

func groupJournal(sc *monitor.ScanCtx, gi int, t0 int64) (writes []string, reads map[string]int) {
	reads = map[string]int{}
	for _, e := range sc.Groups[gi].Events {
		k := eventKey(e, t0)
		if e.IsWrite() {
			writes = append(writes, k)
		} else if e.API != sim.ListPods && e.API != sim.ListNodes {
			reads[k]++
		}
	}
	return
}

// RunPair runs the same seeded history twice, differing only inside one group, and compares what
// escalator did to every other group, scan by scan.
func RunPair(c CaseSpec, rep *monitor.Report, trace io.Writer) (int, error) {
	k, ok := Profiles[c.Profile]
	if !ok {
		return 0, fmt.Errorf("unknown profile %q", c.Profile)
	}
	k.PFault, k.PCrash, k.PStale, k.PRestart, k.PExternal, k.POddNode, k.PFleet, k.PDebugLog, k.PMidScan = 0, 0, 0, 0, 0, 0, 0, 0, 0
	k.StatelessClock, k.SortedView = true, true
	k.Ops = with(k.Ops, "refresh-fails", 0)
	if k.MinGroups < 2 {
		k.MinGroups = 2
	}
	if k.MaxGroups < k.MinGroups {
		k.MaxGroups = k.MinGroups
	}
	hs := c.historySeed()
	prop := "C12"
	if c.Pair == "c11" {
		prop = "C11"
	}
	// which group is varied
	probe, err := NewRun(k, hs, monitor.NewReport(), c.ID(), nil, nil, -1, 0)
	if err != nil {
		return 0, err
	}
	ng := len(probe.Env.Groups)
	varied := int(hs>>8) % ng
	adversity := (hs>>16)%2 == 0

	baseMut := func(specs []sim.GroupSpec, gd *bool) {}
	altMut := baseMut
	altGroup, altSeed := -1, int64(0)
	if c.Pair == "c11" {
		baseMut = func(specs []sim.GroupSpec, gd *bool) {
			*gd = false
			for i := range specs {
				specs[i].Opts.DryMode = false
			}
		}
		altMut = func(specs []sim.GroupSpec, gd *bool) {
			*gd = false
			for i := range specs {
				specs[i].Opts.DryMode = i == varied
			}
		}
	} else {
		baseMut = func(specs []sim.GroupSpec, gd *bool) {
			*gd = false
			for i := range specs {
				specs[i].Opts.DryMode = false
			}
		}
		altMut = baseMut
		altGroup, altSeed = varied, hs^0x0ddba11
	}

	repA, repB := monitor.NewReport(), rep
	var tA, tB io.Writer
	if trace != nil {
		fmt.Fprintf(trace, "pair case %s: varied group %d of %d (%s), adversity=%v\n--- run A (base)\n", c.ID(), varied, ng, c.Pair, adversity)
		tA = trace
	}
	runA, err := NewRun(k, hs, repA, c.ID()+"/A", tA, baseMut, -1, 0)
	if err != nil {
		return 0, err
	}
	t0A := time.Now().UnixNano()
	var scansA []*monitor.ScanCtx
	for s := 0; s < k.Scans; s++ {
		scansA = append(scansA, runA.Step(s))
	}
	if trace != nil {
		fmt.Fprintf(trace, "--- run B (varied)\n")
		tB = trace
	}
	runB, err := NewRun(k, hs, repB, c.ID()+"/B", tB, altMut, altGroup, altSeed)
	if err != nil {
		return 0, err
	}
	t0B := time.Now().UnixNano()
	rep.SetCase(c.ID())
	diffs := 0
	for s := 0; s < k.Scans; s++ {
		if c.Pair == "c12" && adversity {
			runB.adversity(varied, s)
		}
		scB := runB.Step(s)
		scA := scansA[s]
		rep.SetCase(c.ID())
		rep.SetScan(scB.Rec.No)
		for gi := 0; gi < ng; gi++ {
			if gi == varied {
				continue
			}
			wA, rA := groupJournal(scA, gi, t0A)
			wB, rB := groupJournal(scB, gi, t0B)
			same := len(wA) == len(wB)
			if same {
				for i := range wA {
					if wA[i] != wB[i] {
						same = false
					}
				}
			}
			if same {
				for key, n := range rA {
					if rB[key] != n {
						same = false
					}
				}
				if len(rA) != len(rB) {
					same = false
				}
			}
			rep.Inc(prop, "pair-scans-compared")
			if len(wA) > 0 {
				rep.Inc(prop, "pair-scans-with-writes-in-untouched-group")
				sig := fmt.Sprintf("pair:%s:untouched-group-acted", c.Pair)
				if gi < varied {
					sig += ":before-varied"
				} else {
					sig += ":after-varied"
				}
				if runB.Env.Groups[varied].Opts.Name == "default" || runB.Env.Groups[gi].Opts.Name == "default" {
					sig += ":default-group"
				}
				if len(scB.Groups[varied].Writes) != len(scA.Groups[varied].Writes) {
					sig += ":varied-group-diverged"
				}
				rep.Covered(prop, sig)
			}
			if scB.Rec.FaultHits > 0 {
				rep.Covered(prop, "pair:failure-in-varied-group")
			}
			if !same && diffs < 3 {
				diffs++
				key := "other-group-journal-differs"
				if c.Pair == "c11" {
					key = "dry-mode-changes-other-group"
				} else if scB.Rec.FaultHits > 0 {
					key = "failure-not-contained"
				}
				rep.Violate(prop, key, "scan %d: journal of untouched group %s differs between the two runs (varied group %s):\n  A: %v\n  B: %v",
					s+1, runB.Env.Groups[gi].Opts.Name, runB.Env.Groups[varied].Opts.Name, wA, wB)
			}
		}
	}
	return 2 * k.Scans, nil
}

// adversity makes something go wrong inside the varied group only (run B of a C12 pair).
func (run *Run) adversity(gi, s int) {
	r := run.G[gi].rng
	if r.Float64() > 0.3 {
		return
	}
	env := run.Env
	names := env.GroupNodeNames(gi)
	switch r.Intn(5) {
	case 4:
		// writes to the varied group's nodes fail, reads succeed
		fp := &sim.FaultPlan{ByNodeUpdate: map[string]sim.FaultKind{}}
		for _, n := range names {
			fp.ByNodeUpdate[n] = pick(r, sim.FServerErr, sim.FConflict)
		}
		run.nextFaults = fp
		run.tracef("  adversity: every node update in group %d fails", gi)
	case 0:
		fp := &sim.FaultPlan{ByNode: map[string]sim.FaultKind{}}
		for _, n := range names {
			fp.ByNode[n] = pick(r, sim.FServerErr, sim.FConflict, sim.FNotFound)
		}
		run.nextFaults = fp
		run.tracef("  adversity: every k8s call on group %d nodes fails", gi)
	case 1:
		if gi == 0 {
			// the varied group is processed first: its pod list is call #1 (after the refresh describe)
			run.nextFaults = &sim.FaultPlan{ByIndex: map[int]sim.FaultKind{1: sim.FServerErr}}
			run.tracef("  adversity: pod lister of group %d fails", gi)
		}
	case 2:
		if len(names) > 0 {
			n := names[r.Intn(len(names))]
			env.K.MutateNode(n, func(x *v1.Node) {
				x.Status.Allocatable = v1.ResourceList{v1.ResourceCPU: resource.MustParse("0"), v1.ResourceMemory: resource.MustParse("0")}
			})
			run.tracef("  adversity: node %s of group %d has zero capacity", n, gi)
		}
	case 3:
		// all nodes of the varied group lose their allocatable (capacity zero -> arithmetic error)
		for _, n := range names {
			env.K.MutateNode(n, func(x *v1.Node) { x.Status.Allocatable = nil })
		}
		run.tracef("  adversity: nodes of group %d lose allocatable", gi)
	}
}
