package engine

import (
	"fmt"
	"hash/fnv"
	"io"
	"strings"

	"verifharness/sim"

	"verifharness/monitor"
)

// CaseSpec names one history: profile, run seed and index.
type CaseSpec struct {
	Profile string
	Seed    int64
	Index   int
	Pair    string // "" | "c11" | "c12" : two-run comparison cases
	CallsPerScan *[]int // when set, receives the number of faultable calls of every scan
	Fault   string // "" | "s<scan>:i<call>:k<kind>[:i<call>:k<kind>]" : failures injected at call indexes of one scan
}

func (c CaseSpec) ID() string {
	id := fmt.Sprintf("%s:%d:%d", c.Profile, c.Seed, c.Index)
	if c.Pair != "" {
		id = fmt.Sprintf("%s+%s:%d:%d", c.Profile, c.Pair, c.Seed, c.Index)
	}
	if c.Fault != "" {
		id += "@" + c.Fault
	}
	return id
}

// FaultSpec renders an injection plan for CaseSpec.Fault.
func FaultSpec(scan int, idx []int, kinds []sim.FaultKind) string {
	s := fmt.Sprintf("s%d", scan)
	for i := range idx {
		s += fmt.Sprintf(":i%d:k%d", idx[i], int(kinds[i]))
	}
	return s
}

func parseFault(f string) (scan int, plan *sim.FaultPlan) {
	plan = &sim.FaultPlan{ByIndex: map[int]sim.FaultKind{}}
	parts := strings.Split(f, ":")
	fmt.Sscanf(parts[0], "s%d", &scan)
	for i := 1; i+1 < len(parts); i += 2 {
		var idx, k int
		fmt.Sscanf(parts[i], "i%d", &idx)
		fmt.Sscanf(parts[i+1], "k%d", &k)
		plan.ByIndex[idx] = sim.FaultKind(k)
	}
	return
}

func (c CaseSpec) historySeed() int64 {
	h := fnv.New64a()
	fmt.Fprintf(h, "%s/%d/%d", c.Profile, c.Seed, c.Index)
	return int64(h.Sum64() & 0x7fffffffffffffff)
}

// RunCase executes one history under all monitors.
func RunCase(c CaseSpec, rep *monitor.Report, trace io.Writer) (scans int, err error) {
	if c.Pair != "" {
		return RunPair(c, rep, trace)
	}
	k, ok := ProfileFor(c.Profile)
	if !ok {
		return 0, fmt.Errorf("unknown profile %q", c.Profile)
	}
	rep.SetCase(c.ID())
	run, err := NewRun(k, c.historySeed(), rep, c.ID(), trace, nil, -1, 0)
	if err != nil {
		return 0, err
	}
	if trace != nil {
		fmt.Fprintf(trace, "case %s: %d group(s), globalDry=%v\n", c.ID(), len(run.Env.Groups), run.Env.GlobalDry)
		for gi, g := range run.Env.Groups {
			fmt.Fprintf(trace, "  group %d: %+v nodeCPU=%d nodeMem=%d regLag=%v asg=%+v\n", gi, g.Opts, g.NodeCPU, g.NodeMem, g.RegLag, *run.Env.ASGOf(gi))
		}
	}
	fscan, fplan := -1, (*sim.FaultPlan)(nil)
	if c.Fault != "" {
		fscan, fplan = parseFault(c.Fault)
	}
	for s := 0; s < k.Scans; s++ {
		if s == fscan {
			run.nextFaults = fplan
		}
		sc := run.Step(s)
		if c.CallsPerScan != nil {
			*c.CallsPerScan = append(*c.CallsPerScan, sc.Rec.FaultCalls)
		}
	}
	return k.Scans, nil
}

// PlanEntry says how many histories of a profile a property's check runs per tier.
type PlanEntry struct {
	Profile  string
	Quick    int
	Thorough int
	Pair     string
}

// Plans lists, per property, the profiles its history check explores.
var Plans = map[string][]PlanEntry{
	"C01": {{"reaper", 2080, 96000, ""}, {"general", 480, 24000, ""}, {"cordon", 320, 12800, ""}, {"external", 160, 6400, ""}},
	"C02": {{"lock", 2240, 96000, ""}, {"general", 480, 24000, ""}, {"fleet", 320, 12800, ""}},
	"C03": {{"scaledown", 2080, 96000, ""}, {"general", 480, 24000, ""}, {"cordon", 320, 12800, ""}},
	"C04": {{"scaleup", 2080, 96000, ""}, {"general", 480, 24000, ""}, {"fleet", 320, 12800, ""}, {"fromzero", 240, 9600, ""}},
	"C05": {{"scaleup", 1600, 80000, ""}, {"fromzero", 640, 24000, ""}, {"general", 320, 16000, ""}},
	"C06": {{"scaledown", 1600, 80000, ""}, {"scaleup", 800, 40000, ""}, {"general", 640, 32000, ""}, {"fromzero", 160, 8000, ""}},
	"C07": {{"scaleup", 2080, 96000, ""}, {"general", 480, 24000, ""}, {"lock", 320, 12800, ""}, {"taints", 240, 9600, ""}},
	"C08": {{"scaledown", 2240, 96000, ""}, {"general", 480, 24000, ""}, {"taints", 320, 12800, ""}},
	"C09": {{"cordon", 2240, 96000, ""}, {"general", 480, 24000, ""}, {"reaper", 320, 12800, ""}},
	"C10": {{"bigreap", 200, 6000, ""}, {"reaper", 2240, 96000, ""}, {"general", 480, 24000, ""}, {"cordon", 320, 12800, ""}},
	"C11": {{"dry", 2080, 80000, ""}, {"dry", 480, 19200, "c11"}, {"general", 240, 9600, ""}},
	"C12": {{"multi", 960, 40000, ""}, {"multi", 960, 40000, "c12"}, {"general", 480, 19200, ""}, {"fleet2", 480, 19200, ""}},
	"C13": {{"general", 960, 40000, ""}, {"scaledown", 480, 19200, ""}},
	"C15": {{"taints", 2080, 96000, ""}, {"general", 480, 24000, ""}, {"scaledown", 320, 12800, ""}},
	"C19": {{"bigreap", 400, 12000, ""}, {"reaper", 1280, 64000, ""}, {"external", 800, 32000, ""}, {"general", 480, 24000, ""}, {"faults", 480, 24000, ""}},
	"C20": {{"faults", 2400, 112000, ""}, {"general", 640, 32000, ""}, {"fleet", 320, 12800, ""}, {"external", 160, 6400, ""}},
}

// Cases expands a property's plan into the fixed, seed-determined case list of a tier.
func Cases(prop, tier string, seed int64) []CaseSpec {
	var out []CaseSpec
	for _, e := range Plans[prop] {
		n := e.Quick
		if tier == "thorough" {
			n = e.Thorough
		}
		for i := 0; i < n; i++ {
			prof := e.Profile
			if tier == "thorough" && e.Pair == "" && i%8 == 7 {
				prof += "-long"
			}
			out = append(out, CaseSpec{Profile: prof, Seed: seed, Index: i, Pair: e.Pair})
		}
	}
	return out
}
