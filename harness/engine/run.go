package engine

import (
	"fmt"
	"hash/fnv"
	"io"

	"verifharness/monitor"
)

// CaseSpec names one history: profile, run seed and index.
type CaseSpec struct {
	Profile string
	Seed    int64
	Index   int
	Pair    string // "" | "c11" | "c12" : two-run comparison cases
}

func (c CaseSpec) ID() string {
	if c.Pair != "" {
		return fmt.Sprintf("%s+%s:%d:%d", c.Profile, c.Pair, c.Seed, c.Index)
	}
	return fmt.Sprintf("%s:%d:%d", c.Profile, c.Seed, c.Index)
}

func (c CaseSpec) historySeed() int64 {
	h := fnv.New64a()
	fmt.Fprintf(h, "%s/%d/%d", c.Profile, c.Seed, c.Index)
	return int64(h.Sum64() & 0x7fffffffffffffff)
}

// RunCase executes one history under all monitors.
func RunCase(c CaseSpec, rep *monitor.Report, trace io.Writer) (scans int, err error) {
	if c.Pair != "" {
		return RunPair(c, rep, trace)
	}
	k, ok := Profiles[c.Profile]
	if !ok {
		return 0, fmt.Errorf("unknown profile %q", c.Profile)
	}
	rep.SetCase(c.ID())
	run, err := NewRun(k, c.historySeed(), rep, c.ID(), trace, nil, -1, 0)
	if err != nil {
		return 0, err
	}
	if trace != nil {
		fmt.Fprintf(trace, "case %s: %d group(s), globalDry=%v\n", c.ID(), len(run.Env.Groups), run.Env.GlobalDry)
		for gi, g := range run.Env.Groups {
			fmt.Fprintf(trace, "  group %d: %+v nodeCPU=%d nodeMem=%d regLag=%v asg=%+v\n", gi, g.Opts, g.NodeCPU, g.NodeMem, g.RegLag, *run.Env.ASGOf(gi))
		}
	}
	for s := 0; s < k.Scans; s++ {
		run.Step(s)
	}
	return k.Scans, nil
}

// PlanEntry says how many histories of a profile a property's check runs per tier.
type PlanEntry struct {
	Profile  string
	Quick    int
	Thorough int
	Pair     string
}

// Plans lists, per property, the profiles its history check explores.
var Plans = map[string][]PlanEntry{
	"C01": {{"reaper", 260, 6000, ""}, {"general", 60, 1500, ""}, {"cordon", 40, 800, ""}, {"external", 20, 400, ""}},
	"C02": {{"lock", 280, 6000, ""}, {"general", 60, 1500, ""}, {"fleet", 40, 800, ""}},
	"C03": {{"scaledown", 260, 6000, ""}, {"general", 60, 1500, ""}, {"cordon", 40, 800, ""}},
	"C04": {{"scaleup", 260, 6000, ""}, {"general", 60, 1500, ""}, {"fleet", 40, 800, ""}, {"fromzero", 30, 600, ""}},
	"C05": {{"scaleup", 200, 5000, ""}, {"fromzero", 80, 1500, ""}, {"general", 40, 1000, ""}},
	"C06": {{"scaledown", 200, 5000, ""}, {"scaleup", 100, 2500, ""}, {"general", 80, 2000, ""}, {"fromzero", 20, 500, ""}},
	"C07": {{"scaleup", 260, 6000, ""}, {"general", 60, 1500, ""}, {"lock", 40, 800, ""}, {"taints", 30, 600, ""}},
	"C08": {{"scaledown", 280, 6000, ""}, {"general", 60, 1500, ""}, {"taints", 40, 800, ""}},
	"C09": {{"cordon", 280, 6000, ""}, {"general", 60, 1500, ""}, {"reaper", 40, 800, ""}},
	"C10": {{"reaper", 280, 6000, ""}, {"general", 60, 1500, ""}, {"cordon", 40, 800, ""}},
	"C11": {{"dry", 260, 5000, ""}, {"dry", 60, 1200, "c11"}, {"general", 30, 600, ""}},
	"C12": {{"multi", 120, 2500, ""}, {"multi", 120, 2500, "c12"}, {"general", 60, 1200, ""}},
	"C13": {{"general", 120, 2500, ""}, {"scaledown", 60, 1200, ""}},
	"C15": {{"taints", 260, 6000, ""}, {"general", 60, 1500, ""}, {"scaledown", 40, 800, ""}},
	"C19": {{"reaper", 160, 4000, ""}, {"external", 100, 2000, ""}, {"general", 60, 1500, ""}, {"faults", 60, 1500, ""}},
	"C20": {{"faults", 300, 7000, ""}, {"general", 80, 2000, ""}, {"fleet", 40, 800, ""}, {"external", 20, 400, ""}},
}

// Cases expands a property's plan into the fixed, seed-determined case list of a tier.
func Cases(prop, tier string, seed int64) []CaseSpec {
	var out []CaseSpec
	for _, e := range Plans[prop] {
		n := e.Quick
		if tier == "thorough" {
			n = e.Thorough
		}
		for i := 0; i < n; i++ {
			out = append(out, CaseSpec{Profile: e.Profile, Seed: seed, Index: i, Pair: e.Pair})
		}
	}
	return out
}
