// Package engine generates seeded histories (configurations, world changes, clock
// advances, faults, restarts), drives the real controller through them and hands
// every scan to the monitors.
package engine

import (
	"fmt"
	"io"
	"os"
	"math/rand"
	"sort"
	"time"

	"verifharness/monitor"
	"verifharness/oracle"
	"verifharness/sim"

	"github.com/atlassian/escalator/pkg/controller"
	log "github.com/sirupsen/logrus"
	v1 "k8s.io/api/core/v1"
	"k8s.io/apimachinery/pkg/api/resource"
	metav1 "k8s.io/apimachinery/pkg/apis/meta/v1"
)

// Knobs bias the generator towards one property's interesting region.
type Knobs struct {
	XSeed      int64 // history seed, for the second stream of genGroup
	Name       string
	MinGroups  int
	MaxGroups  int
	Scans      int
	MaxNodes   int // upper bound for max_nodes
	PGroupDry  float64
	PGlobalDry float64
	PFleet     float64
	PAuto      float64 // min_nodes/max_nodes auto-discovered
	PMaxBelowASG float64 // max_nodes strictly below the cloud maximum
	PFault     float64 // per scan: inject API faults
	PCrash     float64 // per scan: process death inside the scan
	PStale     float64 // per scan: serve the previous snapshot
	PRestart   float64 // per scan boundary: restart the controller
	PBoundary  float64 // choose the next clock advance so that a grace/cool-down boundary is hit exactly (or +-1s)
	PStarve    float64
	PMaxAge    float64
	PDefault   float64 // one group is named "default"
	PDebugLog  float64
	PTies      float64 // creation-time ties / zero timestamps
	POddNode   float64 // per scan: add an oddly shaped node / pod (C20)
	PMidScan   float64 // per scan: a node changes between the cache snapshot and escalator's fetch-latest
	PExternal  float64 // per history: a node of the group that is not a member of the cloud group
	POps       float64 // probability of each additional world op before a scan
	Ops        map[string]int
	StatelessClock bool // clock advances do not look at the world (needed for two-run comparisons)
	SortedView bool
	NoFaultAPI []string
	ShortGrace bool
	Setup      string // directed opening: "" | "scaleup-then-pressure" | "force-then-up" | "below-min" | "from-zero" | "drain"
	MinZero    float64
	BigGroups  bool // large groups with removal rates as large as the group (C19: batches beyond 25 nodes)
}

type groupGen struct {
	rng      *rand.Rand
	rx       *rand.Rand // second per-group stream, for object shapes added late (keeps the first stream's histories)
	ry       *rand.Rand // third stream: fields that neither escalator, the oracle nor the simulated world read (inert)
	shape    sim.PodShape
	memBound bool
}

// Run is one history in progress.
type Run struct {
	K      Knobs
	Env    *sim.Env
	H      *monitor.History
	Master *rand.Rand
	G      []*groupGen
	Rep    *monitor.Report
	Trace  io.Writer
	nextFaults *sim.FaultPlan
	nextStale  bool
	scanInterval time.Duration
	external map[int]string
}

func pick[T any](r *rand.Rand, xs ...T) T { return xs[r.Intn(len(xs))] }

func dur(d time.Duration) string { return d.String() }

// genGroup draws one valid node-group configuration.
func genGroup(k Knobs, r *rand.Rand, gi int, name string) (sim.GroupSpec, int64, int64) {
	th := pick(r, [3]int{10, 40, 70}, [3]int{25, 50, 75}, [3]int{25, 50, 75}, [3]int{1, 2, 3}, [3]int{30, 60, 100}, [3]int{50, 99, 100}, [3]int{20, 45, 150}, [3]int{5, 35, 80})
	fast := pick(r, 1, 2, 3, 5, 50)
	slow := pick(r, 0, 1, 1, 2, fast)
	if slow > fast {
		slow = fast
	}
	maxCap := k.MaxNodes
	if maxCap < 3 {
		maxCap = 8
	}
	minN := pick(r, 0, 1, 1, 2, 3)
	if r.Float64() < k.MinZero {
		minN = 0
	}
	maxN := minN + 1 + r.Intn(maxCap-minN)
	if k.BigGroups {
		minN = pick(r, 0, 2, 10)
		maxN = 30 + r.Intn(maxCap-29)
		fast, slow = 50, pick(r, 5, 50)
	}
	soft := pick(r, 1*time.Second, 30*time.Second, time.Minute, 5*time.Minute)
	hard := pick(r, soft+time.Second, 2*soft, 10*time.Minute+soft, time.Hour)
	if k.ShortGrace {
		soft = pick(r, 1*time.Second, 30*time.Second, time.Minute)
		hard = pick(r, soft+time.Second, 2*soft, soft+2*time.Minute)
	}
	cool := pick(r, 1*time.Second, 30*time.Second, 2*time.Minute, 10*time.Minute)
	o := controller.NodeGroupOptions{
		Name: name, LabelKey: "customer", LabelValue: fmt.Sprintf("grp%d", gi), CloudProviderGroupName: fmt.Sprintf("asg-%d", gi),
		MinNodes: minN, MaxNodes: maxN,
		TaintLowerCapacityThresholdPercent: th[0], TaintUpperCapacityThresholdPercent: th[1], ScaleUpThresholdPercent: th[2],
		SlowNodeRemovalRate: slow, FastNodeRemovalRate: fast,
		SoftDeleteGracePeriod: dur(soft), HardDeleteGracePeriod: dur(hard), ScaleUpCoolDownPeriod: dur(cool),
		TaintEffect: pick(r, v1.TaintEffect(""), v1.TaintEffectNoSchedule, v1.TaintEffectNoExecute, v1.TaintEffectPreferNoSchedule),
	}
	if r.Float64() < k.PStarve {
		o.ScaleOnStarve = true
	}
	if r.Float64() < k.PMaxAge {
		o.MaxNodeAge = pick(r, "1h", "24h", "10m")
	} else if r.Intn(4) == 0 {
		o.MaxNodeAge = pick(r, "0", "")
	}
	if r.Float64() < k.PGroupDry {
		o.DryMode = true
	}
	if r.Float64() < k.PFleet {
		o.AWS.LaunchTemplateID = "lt-0123456789abcdef0"
		o.AWS.LaunchTemplateVersion = "1"
		o.AWS.Lifecycle = pick(r, "", "on-demand", "spot")
		o.AWS.FleetInstanceReadyTimeout = pick(r, "", "30s", "5s")
		if rx := rand.New(rand.NewSource(k.XSeed*31 + int64(gi) + 7)); rx.Intn(10) == 0 {
			// amounts to a ready-timeout of zero: every fleet request times out at once and is cleaned up
			o.AWS.FleetInstanceReadyTimeout = pick(rx, "0s", "-30s", "60")
		}
		if r.Intn(2) == 0 {
			o.AWS.InstanceTypeOverrides = []string{"m5.large", "m5a.large"}
		}
		o.AWS.ResourceTagging = r.Intn(2) == 0
	}
	asgMin, asgMax := int64(minN), int64(maxN)
	switch {
	case r.Float64() < k.PAuto:
		o.MinNodes, o.MaxNodes = 0, 0
	case r.Float64() < k.PMaxBelowASG:
		asgMax = int64(maxN) + int64(1+r.Intn(20))
		asgMin = int64(r.Intn(minN + 1))
	default:
		switch r.Intn(4) {
		case 0:
			asgMax = int64(maxN) + int64(r.Intn(4))
		case 1:
			if maxN > minN+1 {
				asgMax = int64(maxN) - 1
			}
		}
		asgMin = int64(r.Intn(minN + 1))
	}
	if k.BigGroups && o.MinNodes != 0 || k.BigGroups && o.MaxNodes != 0 {
		if r.Intn(2) == 0 {
			// the cloud group's own minimum was raised far above min_nodes: large removal batches must be refused whole
			asgMin = int64(maxN) - int64(6+r.Intn(25))
			if asgMin < 0 {
				asgMin = 0
			}
		}
	}
	if asgMax <= asgMin {
		asgMax = asgMin + 1
	}
	spec := sim.GroupSpec{Opts: o,
		NodeCPU: pick(r, int64(1000), 2000, 4000, 16000, 1900),
		NodeMem: pick(r, int64(4<<30), 8<<30, 16<<30, 64<<30, 7500000000),
		RegLag:  pick(r, time.Duration(0), 20*time.Second, 90*time.Second),
	}
	if r.Intn(25) == 0 {
		// very large machines: group totals of hundreds of terabytes (10^17..10^18 in the milli-units escalator computes in)
		spec.NodeMem = pick(r, int64(12)<<40, int64(16)<<40, 17000000000000)
	}
	return spec, asgMin, asgMax
}

// NewRun builds the deployment of one history. altSeed changes only the per-group stream of group altGroup
// (used by the two-run comparisons); pass altGroup=-1 for ordinary runs.
func NewRun(k Knobs, seed int64, rep *monitor.Report, caseID string, trace io.Writer, mutate func(specs []sim.GroupSpec, globalDry *bool), altGroup int, altSeed int64) (*Run, error) {
	master := rand.New(rand.NewSource(seed))
	k.XSeed = seed
	ng := k.MinGroups
	if k.MaxGroups > k.MinGroups {
		ng += master.Intn(k.MaxGroups - k.MinGroups + 1)
	}
	if ng < 1 {
		ng = 1
	}
	var specs []sim.GroupSpec
	var mins, maxs []int64
	defIdx := -1
	if master.Float64() < k.PDefault {
		defIdx = master.Intn(ng)
	}
	for gi := 0; gi < ng; gi++ {
		name := fmt.Sprintf("group%d", gi)
		if gi == defIdx {
			name = "default"
		}
		gr := rand.New(rand.NewSource(seed*7919 + int64(gi)*104729 + 13))
		s, mn, mx := genGroup(k, gr, gi, name)
		specs = append(specs, s)
		mins, maxs = append(mins, mn), append(maxs, mx)
	}
	globalDry := master.Float64() < k.PGlobalDry
	if mutate != nil {
		mutate(specs, &globalDry)
	}
	env := sim.NewEnv(specs, globalDry, seed^0x5eed)
	if k.SortedView {
		env.ViewRng = nil
	}
	if !k.StatelessClock {
		env.GCLag = pick(master, 0, 0, 0, 1, 2)
	}
	// every second history builds its controllers with the real NewController/NewClient (informers listing once
	// through a REST client served from the store), the others with the mirroring hook constructor
	realCtor := master.Intn(2) == 0
	env.RealConstructor = (realCtor && !k.StatelessClock) || os.Getenv("VERIF_REAL_CTOR") != ""
	run := &Run{K: k, Env: env, Master: master, Rep: rep, Trace: trace, scanInterval: 60 * time.Second, external: map[int]string{}}
	if master.Float64() < k.PDebugLog {
		sim.SetLogLevel(log.DebugLevel)
	} else {
		sim.SetLogLevel(log.InfoLevel)
	}
	for gi := range specs {
		gs := seed*31337 + int64(gi)*7 + 5
		if gi == altGroup {
			gs = altSeed
		}
		gg := &groupGen{rng: rand.New(rand.NewSource(gs)), rx: rand.New(rand.NewSource(gs ^ 0x5ca1ab1e)), ry: rand.New(rand.NewSource(gs ^ 0x1e57ab1e))}
		gg.shape = pick(gg.rng, sim.ShapeSelector, sim.ShapeAffinity, sim.ShapeAffinityExclude)
		gg.memBound = gg.rng.Intn(3) == 0
		run.G = append(run.G, gg)

		// effective bounds for the initial population
		lo, hi := int(mins[gi]), int(maxs[gi])
		if specs[gi].Opts.MinNodes != 0 || specs[gi].Opts.MaxNodes != 0 {
			lo, hi = specs[gi].Opts.MinNodes, specs[gi].Opts.MaxNodes
			if int64(hi) > maxs[gi] {
				hi = int(maxs[gi])
			}
			if int64(lo) < mins[gi] {
				// the cloud minimum may be lower than min_nodes; never higher than what we start with
			}
		}
		n0 := lo
		if hi > lo {
			n0 = lo + gg.rng.Intn(hi-lo+1)
		}
		if k.BigGroups && hi-4 > lo {
			n0 = hi - gg.rng.Intn(4)
		}
		if k.Setup == "from-zero" {
			n0 = 0
		}
		if int64(n0) < mins[gi] {
			n0 = int(mins[gi])
		}
		env.AddASG(gi, mins[gi], maxs[gi], int64(n0))
		now := time.Now()
		base := now.Add(-time.Duration(2+gg.rng.Intn(48)) * time.Hour)
		for i := 0; i < n0; i++ {
			created := base.Add(time.Duration(i*7+gg.rng.Intn(5)) * time.Minute)
			if gg.rng.Float64() < k.PTies {
				switch gg.rng.Intn(3) {
				case 0:
					created = base // tie
				case 1:
					created = base.Add(time.Duration(gg.rng.Intn(3)) * time.Minute) // near ties
				case 2:
					created = time.Time{} // zero timestamp
				}
			}
			n := env.AddNode(gi, created)
			if created.IsZero() {
				env.K.MutateNode(n.Name, func(x *v1.Node) { x.CreationTimestamp = metav1.Time{} })
			}
		}
		for _, name := range env.GroupNodeNames(gi) {
			if gg.rng.Intn(3) == 0 {
				env.K.PutPod(env.BuildDaemonPod(gi, name))
			}
		}
		if master.Float64() < k.PExternal && n0 > 0 {
			// a node carrying the group's label whose instance is not in the cloud group
			inst := &sim.Instance{ID: fmt.Sprintf("i-ext%d", gi), AZ: "us-east-1b", Launch: now, State: "running"}
			env.AWS.Inst[inst.ID] = inst
			n := env.BuildNode(gi, inst, now.Add(-100*time.Hour))
			env.K.PutNode(n)
			run.external[gi] = n.Name
		}
	}
	if err := env.Start(); err != nil {
		return nil, err
	}
	run.H = monitor.NewHistory(env, caseID)
	return run, nil
}

// worldClass classifies a stored node the way the oracle does.
func worldClass(n *v1.Node) oracle.Class { return oracle.Classify(n) }

func (run *Run) untaintedCap(gi int) (cpu, mem int64, count int) {
	for _, name := range run.Env.GroupNodeNames(gi) {
		n := run.Env.K.Nodes[name]
		if worldClass(n) != oracle.Untainted {
			continue
		}
		c := n.Status.Allocatable[v1.ResourceCPU]
		m := n.Status.Allocatable[v1.ResourceMemory]
		cpu += c.MilliValue()
		mem += m.Value()
		count++
	}
	return
}

func (run *Run) nodesByClass(gi int, cl oracle.Class) []string {
	var out []string
	for _, name := range run.Env.GroupNodeNames(gi) {
		if worldClass(run.Env.K.Nodes[name]) == cl {
			out = append(out, name)
		}
	}
	return out
}

func (run *Run) tracef(format string, args ...interface{}) {
	if run.Trace != nil {
		fmt.Fprintf(run.Trace, format+"\n", args...)
	}
}

// opLoad rewrites the group's pods so that utilisation lands on (or next to) a chosen value.
func (run *Run) opLoad(gi int, forced string) {
	env, gg := run.Env, run.G[gi]
	r := gg.rng
	o := env.Groups[gi].Opts
	capCPU, capMem, U := run.untaintedCap(gi)
	spec := env.Groups[gi]
	// requests of pods that stay (bound to tainted / cordoned nodes keep running)
	var keepCPU, keepMem int64
	for _, k := range env.GroupPodKeys(gi) {
		p := env.K.Pods[k]
		keep := false
		if p.Spec.NodeName != "" {
			if n, ok := env.K.Nodes[p.Spec.NodeName]; ok && worldClass(n) != oracle.Untainted {
				keep = true
			}
		}
		if keep {
			c, m := oracle.PodRequest(p)
			keepCPU += c.Int64()
			keepMem += m.Int64()
		} else {
			env.K.DeletePodObj(k)
		}
	}
	mode := forced
	if mode == "" {
		mode = pick(r, "edge", "edge", "edge", "random", "random", "zero", "huge")
	}
	memBound := gg.memBound
	if r.Intn(5) == 0 {
		memBound = !memBound
	}
	capDom, nodeDom := capCPU, spec.NodeCPU
	if memBound {
		capDom, nodeDom = capMem, spec.NodeMem
	}
	if U == 0 {
		capDom = nodeDom * int64(1+r.Intn(3))
	}
	var target int64
	desc := mode
	switch mode {
	case "zero":
		target = 0
	case "huge":
		target = capDom * int64(o.ScaleUpThresholdPercent) / 100 * int64(2+r.Intn(8))
	case "random":
		target = int64(r.Float64() * 2.2 * float64(o.ScaleUpThresholdPercent) / 100 * float64(capDom))
	case "fast":
		target = capDom * int64(o.TaintLowerCapacityThresholdPercent) / 100 / 2
	case "slow":
		target = capDom * int64(o.TaintLowerCapacityThresholdPercent+o.TaintUpperCapacityThresholdPercent) / 200
	case "hold":
		target = capDom * int64(o.TaintUpperCapacityThresholdPercent+o.ScaleUpThresholdPercent) / 200
	case "up":
		target = capDom*int64(o.ScaleUpThresholdPercent)/100 + capDom*int64(5+r.Intn(150))/100
	default: // edge
		t := pick(r, o.TaintLowerCapacityThresholdPercent, o.TaintUpperCapacityThresholdPercent, o.ScaleUpThresholdPercent)
		off := pick(r, int64(-1), 0, 0, 1)
		target = capDom*int64(t)/100 + off
		if (capDom*int64(t))%100 != 0 && off == 0 {
			target += int64(r.Intn(2)) // just below or just above when equality is unreachable
		}
		desc = fmt.Sprintf("edge:%d%+d", t, off)
	}
	if target < 0 {
		target = 0
	}
	// the other resource stays clearly below
	frac := r.Float64() * 0.8
	var wantCPU, wantMem int64
	if memBound {
		wantMem = target
		wantCPU = int64(float64(target) / float64(maxI64(capMem, 1)) * float64(capCPU) * frac)
	} else {
		wantCPU = target
		wantMem = int64(float64(target) / float64(maxI64(capCPU, 1)) * float64(capMem) * frac)
	}
	if U == 0 {
		if memBound {
			wantCPU = spec.NodeCPU / 4
		} else {
			wantMem = spec.NodeMem / 4
		}
	}
	restCPU, restMem := wantCPU-keepCPU, wantMem-keepMem
	if restCPU < 0 {
		restCPU = 0
	}
	if restMem < 0 {
		restMem = 0
	}
	// split over pods no larger than ~half a node
	n := int64(1)
	if spec.NodeCPU > 0 && restCPU/(spec.NodeCPU/2+1)+1 > n {
		n = restCPU/(spec.NodeCPU/2+1) + 1
	}
	if spec.NodeMem > 0 && restMem/(spec.NodeMem/2+1)+1 > n {
		n = restMem/(spec.NodeMem/2+1) + 1
	}
	if n > 400 {
		n = 400
	}
	if restCPU == 0 && restMem == 0 {
		n = 0
	}
	for i := int64(0); i < n; i++ {
		c, m := restCPU/n, restMem/n
		if i == n-1 {
			c, m = restCPU-c*(n-1), restMem-m*(n-1)
		}
		shape := gg.shape
		if r.Intn(4) == 0 {
			shape = pick(r, sim.ShapeSelector, sim.ShapeAffinity, sim.ShapeAffinityExclude)
		}
		env.AddPod(gi, env.BuildPod(gi, c, m, shape))
	}
	run.tracef("  op g%d load %s target=%d memBound=%v pods=%d kept=(%d,%d)", gi, desc, target, memBound, n, keepCPU, keepMem)
}

func maxI64(a, b int64) int64 {
	if a > b {
		return a
	}
	return b
}

var oddTaintValues = []string{"", "abc", "1.5", " 12", "0x10", "99999999999999999999", "-99999999999999999999", "9223372036854775807", "-9223372036854775808", "0", "-1", "+5",
	// far in the future, still inside int64 and inside what time.Unix represents: year 2321, 5138, 10000, 2.9e11
	"11093612653", "99999999999", "253402300800", "9000000000000000000", "NaN", "1e9", "true"}

// applyOp performs one world change inside group gi.
func (run *Run) applyOp(gi int, op string) {
	env, r := run.Env, run.G[gi].rng
	names := env.GroupNodeNames(gi)
	anyNode := func() string {
		if len(names) == 0 {
			return ""
		}
		return names[r.Intn(len(names))]
	}
	preferTainted := func() string {
		t := append(run.nodesByClass(gi, oracle.Tainted), run.nodesByClass(gi, oracle.ForceTainted)...)
		if len(t) > 0 && r.Intn(4) != 0 {
			return t[r.Intn(len(t))]
		}
		return anyNode()
	}
	now := time.Now().Unix()
	o := env.Groups[gi].Opts
	soft, _ := time.ParseDuration(o.SoftDeleteGracePeriod)
	hard, _ := time.ParseDuration(o.HardDeleteGracePeriod)
	switch op {
	case "load":
		run.opLoad(gi, "")
	case "load-low":
		run.opLoad(gi, pick(r, "fast", "slow", "zero"))
	case "load-up":
		run.opLoad(gi, "up")
	case "load-hold":
		run.opLoad(gi, "hold")
	case "complete":
		// pods on one tainted node (or all of them) finish
		t := append(run.nodesByClass(gi, oracle.Tainted), run.nodesByClass(gi, oracle.ForceTainted)...)
		if len(t) == 0 {
			return
		}
		victims := map[string]bool{t[r.Intn(len(t))]: true}
		if r.Intn(3) == 0 {
			for _, n := range t {
				victims[n] = true
			}
		}
		for _, k := range env.GroupPodKeys(gi) {
			if victims[env.K.Pods[k].Spec.NodeName] {
				env.K.DeletePodObj(k)
			}
		}
		run.tracef("  op g%d complete pods on %v", gi, victims)
	case "occupy":
		// a pod lands on a tainted node just before it was tainted (keeps it busy)
		if n := preferTainted(); n != "" {
			p := env.BuildPod(gi, 50, 32<<20, run.G[gi].shape)
			sim.Bind(p, n)
			env.AddPod(gi, p)
			run.tracef("  op g%d occupy %s", gi, n)
		}
	case "pending-big":
		spec := env.Groups[gi]
		p := env.BuildPod(gi, spec.NodeCPU*2, spec.NodeMem/8, run.G[gi].shape)
		if r.Intn(2) == 0 {
			p = env.BuildPod(gi, spec.NodeCPU/8, spec.NodeMem*2, run.G[gi].shape)
		}
		env.AddPod(gi, p)
		run.tracef("  op g%d pending-big", gi)
	case "cordon":
		if n := preferTainted(); n != "" {
			env.SetCordon(n, true)
			run.tracef("  op g%d cordon %s", gi, n)
		}
	case "uncordon":
		if c := run.nodesByClass(gi, oracle.Cordoned); len(c) > 0 {
			n := c[r.Intn(len(c))]
			env.SetCordon(n, false)
			run.tracef("  op g%d uncordon %s", gi, n)
		}
	case "force-taint":
		if n := anyNode(); n != "" {
			env.SetTaint(n, sim.ForceTaint, pick(r, "", "true", fmt.Sprint(now)), v1.TaintEffectNoSchedule)
			run.tracef("  op g%d force-taint %s", gi, n)
		}
	case "unforce":
		if c := run.nodesByClass(gi, oracle.ForceTainted); len(c) > 0 {
			env.RemoveTaint(c[r.Intn(len(c))], sim.ForceTaint)
		}
	case "ext-taint-odd":
		if n := anyNode(); n != "" {
			val := pick(r, oddTaintValues...)
			env.SetTaint(n, sim.EscalatorTaint, val, pick(r, v1.TaintEffectNoSchedule, v1.TaintEffectNoExecute))
			run.tracef("  op g%d ext-taint %s value=%q", gi, n, val)
		}
	case "ext-taint-time":
		// an outside actor (or an earlier escalator) wrote a taint time around the grace boundaries
		if n := anyNode(); n != "" {
			delta := pick(r, int64(soft.Seconds()), int64(soft.Seconds())+1, int64(soft.Seconds())-1, int64(hard.Seconds()), int64(hard.Seconds())+1, int64(hard.Seconds())-1, -3600, 0, int64(hard.Seconds())*3)
			env.SetTaint(n, sim.EscalatorTaint, fmt.Sprint(now-delta), pick(r, v1.TaintEffectNoSchedule, v1.TaintEffectNoExecute))
			run.tracef("  op g%d ext-taint %s age=%ds", gi, n, delta)
		}
	case "foreign-taint":
		if n := anyNode(); n != "" {
			key := pick(r, "node.kubernetes.io/unreachable", "dedicated", "atlassian.com/escalator-other", "example.com/maintenance")
			eff := pick(r, v1.TaintEffectNoSchedule, v1.TaintEffectPreferNoSchedule, v1.TaintEffectNoExecute)
			env.K.MutateNode(n, func(x *v1.Node) {
				t := v1.Taint{Key: key, Value: pick(r, "", "x", "true"), Effect: eff}
				if r.Intn(2) == 0 {
					x.Spec.Taints = append(x.Spec.Taints, t)
				} else {
					x.Spec.Taints = append([]v1.Taint{t}, x.Spec.Taints...)
				}
			})
			run.tracef("  op g%d foreign-taint %s %s", gi, n, key)
		}
	case "annotate":
		if n := preferTainted(); n != "" {
			val := pick(r, "true", "keep for debugging", "false", "x")
			if run.G[gi].rx.Intn(5) == 0 {
				val = pick(run.G[gi].rx, " ", "\t", "  ", "0", "no") // non-empty is non-empty
			}
			env.SetAnnotation(n, sim.NoDeleteAnno, val, true)
			run.tracef("  op g%d annotate %s", gi, n)
		}
	case "annotate-empty":
		if n := preferTainted(); n != "" {
			env.SetAnnotation(n, sim.NoDeleteAnno, "", true)
		}
	case "unannotate":
		for _, n := range names {
			if _, ok := env.K.Nodes[n].Annotations[sim.NoDeleteAnno]; ok && r.Intn(2) == 0 {
				env.SetAnnotation(n, sim.NoDeleteAnno, "", false)
				run.tracef("  op g%d unannotate %s", gi, n)
			}
		}
	case "asg-bounds":
		g := env.ASGOf(gi)
		if env.Groups[gi].Opts.MinNodes == 0 && env.Groups[gi].Opts.MaxNodes == 0 {
			g.Min = int64(r.Intn(int(g.Desired) + 1))
			g.Max = g.Desired + int64(r.Intn(6))
			if g.Max <= g.Min {
				g.Max = g.Min + 1
			}
			if run.G[gi].rx.Intn(4) == 0 && g.Desired > 0 {
				// the cloud group is pinned: minimum = maximum (still auto-discovered every scan)
				g.Min = 1 + int64(run.G[gi].rx.Intn(int(g.Desired)))
				g.Max = g.Min
				if g.Max < g.Desired {
					g.Max, g.Min = g.Desired, g.Desired
				}
			}
			run.tracef("  op g%d asg-bounds min=%d max=%d", gi, g.Min, g.Max)
		}
	case "extra-node":
		// a machine joins the group's label without belonging to the cloud group's capacity plan (pushes the node
		// count towards or beyond max_nodes)
		g := env.ASGOf(gi)
		if g != nil && len(names) > 0 && len(names) <= env.Groups[gi].Opts.MaxNodes+1 {
			inst := env.AWS.Launch(g, "us-east-1a")
			g.Desired = int64(len(g.Instances))
			if g.Max < g.Desired {
				g.Max = g.Desired
			}
			env.K.PutNode(env.BuildNode(gi, inst, time.Now()))
			run.tracef("  op g%d extra-node %s", gi, sim.NodeNameFor(inst.ID))
		}
	case "foreign-pod":
		// a pod that belongs to no group (or to the default group) lands on one of this group's nodes
		if n := preferTainted(); n != "" {
			p := env.BuildPod(gi, 200, 128<<20, sim.ShapeSelector)
			p.Name = "stray-" + p.Name
			p.Spec.NodeSelector = map[string]string{"team": "other"}
			p.Spec.Affinity = nil
			if r.Intn(2) == 0 && !run.K.StatelessClock {
				// a default-group pod (not in the two-run comparisons: it would, rightly, change the default group)
				p.Spec.NodeSelector = nil
			}
			sim.Bind(p, n)
			p.Labels = map[string]string{"verif/group": "stray"}
			env.K.PutPod(p)
			run.tracef("  op g%d foreign-pod on %s", gi, n)
		}
	case "resize-pod":
		// in-place resize: same pod (same UID), different requests
		if keys := env.GroupPodKeys(gi); len(keys) > 0 {
			k := keys[r.Intn(len(keys))]
			p := env.K.Pods[k]
			if len(p.Spec.Containers) > 0 && p.Spec.Containers[0].Resources.Requests != nil {
				c := p.Spec.Containers[0].Resources.Requests[v1.ResourceCPU]
				p.Spec.Containers[0].Resources.Requests[v1.ResourceCPU] = *resource.NewMilliQuantity(c.MilliValue()/2+int64(r.Intn(300)), resource.DecimalSI)
				run.tracef("  op g%d resize-pod %s", gi, k)
			}
		}
	case "pod-terminating":
		// graceful deletion: the pods stay listed, with a deletion timestamp, until their grace period is over
		keys := env.GroupPodKeys(gi)
		for _, k := range keys {
			if p := env.K.Pods[k]; p.DeletionTimestamp != nil && time.Since(p.DeletionTimestamp.Time) > 90*time.Second {
				env.K.DeletePodObj(k)
			}
		}
		keys = env.GroupPodKeys(gi)
		var pending []string
		for _, k := range keys {
			if env.K.Pods[k].Status.Phase == v1.PodPending {
				pending = append(pending, k)
			}
		}
		for n := 1 + r.Intn(3); n > 0 && len(keys) > 0; n-- {
			from := keys
			if len(pending) > 0 && r.Intn(2) == 0 {
				from = pending
			}
			k := from[r.Intn(len(from))]
			p := env.K.Pods[k]
			if p == nil || p.DeletionTimestamp != nil {
				continue
			}
			t := metav1.NewTime(time.Now())
			grace := int64(30)
			p.DeletionTimestamp, p.DeletionGracePeriodSeconds = &t, &grace
			run.tracef("  op g%d pod-terminating %s (%s)", gi, k, p.Status.Phase)
		}
	case "resize-nodes":
		// the launch template changes: nodes registered from now on have another size
		spec := &env.Groups[gi]
		spec.NodeCPU = pick(r, int64(1000), 1500, 2000, 4000, 3900)
		spec.NodeMem = pick(r, int64(4<<30), 8<<30, 16<<30, 7500000000)
		run.tracef("  op g%d resize-nodes cpu=%d mem=%d", gi, spec.NodeCPU, spec.NodeMem)
	case "drain-group":
		// every node of the group goes away (instances terminated outside escalator, desired lowered)
		g := env.ASGOf(gi)
		if g != nil && g.Min == 0 && env.Groups[gi].Opts.MinNodes == 0 {
			for _, id := range append([]string(nil), g.Instances...) {
				env.AWS.Inst[id].State = "terminated"
			}
			g.Instances = nil
			g.Desired = 0
			run.tracef("  op g%d drain-group", gi)
		}
	case "asg-max-down":
		// someone lowers the cloud group's maximum (never below its current desired capacity)
		g := env.ASGOf(gi)
		if g != nil && g.Max > g.Desired && g.Max > 1 {
			g.Max = g.Desired + int64(r.Intn(int(g.Max-g.Desired)))
			if g.Max < 1 {
				g.Max = 1
			}
			if g.Max <= g.Min {
				g.Max = g.Min + 1
			}
			run.tracef("  op g%d asg-max-down max=%d", gi, g.Max)
		}
	case "refresh-fails":
		// the next refresh fails once: escalator rebuilds its cloud provider
		if run.nextFaults == nil {
			run.nextFaults = &sim.FaultPlan{ByIndex: map[int]sim.FaultKind{0: pick(r, sim.FThrottle, sim.FServerErr, sim.FOmitFirst, sim.FOmitLast)}}
			run.tracef("  op g%d refresh-fails", gi)
		}
	case "fleet-script":
		// how the cloud answers the next fleet requests
		env.AWS.Fleet.Groups = pick(r, 1, 1, 2, 3)
		env.AWS.Fleet.ReadyAfter = pick(r, time.Duration(0), time.Duration(0), time.Second, 3*time.Second, -1)
		env.AWS.Fleet.WithErrors = r.Intn(4) == 0
		env.AWS.Fleet.FailMessage = pick(r, "", "", "", "There is no Spot capacity available that matches your request.")
		env.AWS.Fleet.Empty = r.Intn(8) == 0
		run.tracef("  op g%d fleet-script %+v", gi, env.AWS.Fleet)
	case "label-drift":
		// a node loses / regains the group label
		if n := anyNode(); n != "" && r.Intn(2) == 0 {
			env.K.MutateNode(n, func(x *v1.Node) { x.Labels[o.LabelKey] = "zz-elsewhere" })
		}
	}
}

func weighted(r *rand.Rand, w map[string]int) string {
	keys := make([]string, 0, len(w))
	total := 0
	for k, v := range w {
		if v > 0 {
			keys = append(keys, k)
			total += v
		}
	}
	if total == 0 {
		return ""
	}
	sort.Strings(keys)
	x := r.Intn(total)
	for _, k := range keys {
		x -= w[k]
		if x < 0 {
			return k
		}
	}
	return keys[len(keys)-1]
}

// Step applies the world ops that precede scan s, runs the scan and checks it.
func (run *Run) Step(s int) *monitor.ScanCtx {
	env, k := run.Env, run.K
	for gi := range env.Groups {
		r := run.G[gi].rng
		if s == 0 && k.Setup != "from-zero" {
			run.opLoad(gi, "")
		}
		if rx := run.G[gi].rx; rx.Intn(12) == 0 {
			// kubelet trouble: a node reports NotReady / Unknown for a while (escalator does not look at conditions)
			if names := env.GroupNodeNames(gi); len(names) > 0 {
				n := names[rx.Intn(len(names))]
				st := pick(rx, v1.ConditionFalse, v1.ConditionUnknown, v1.ConditionTrue)
				env.K.MutateNode(n, func(x *v1.Node) {
					x.Status.Conditions = []v1.NodeCondition{{Type: v1.NodeReady, Status: st}}
				})
				run.tracef("  op g%d node %s Ready=%s", gi, n, st)
			}
		}
		if rx := run.G[gi].ry; rx.Intn(15) == 0 {
			// a Node object that is being deleted but held by a finalizer stays listed, with a deletion timestamp
			// (escalator does not look at it); a bound pod gets the mirror-pod annotation (not the static-pod one)
			if names := env.GroupNodeNames(gi); len(names) > 0 {
				n := names[rx.Intn(len(names))]
				if rx.Intn(2) == 0 {
					env.K.MutateNode(n, func(x *v1.Node) {
						if x.DeletionTimestamp == nil {
							t := metav1.NewTime(time.Now())
							x.DeletionTimestamp = &t
							x.Finalizers = []string{"example.com/hold"}
						} else {
							x.DeletionTimestamp, x.Finalizers = nil, nil
						}
					})
					run.tracef("  op g%d node %s deletion timestamp toggled", gi, n)
				} else {
					for _, pk := range env.GroupPodKeys(gi) {
						if p := env.K.Pods[pk]; p.Spec.NodeName == n {
							if p.Annotations == nil {
								p.Annotations = map[string]string{}
							}
							p.Annotations["kubernetes.io/config.mirror"] = "abc123"
							run.tracef("  op g%d pod %s gets the mirror annotation", gi, pk)
							break
						}
					}
				}
			}
		}
		if r.Float64() < 0.7 {
			run.applyOp(gi, weighted(r, k.Ops))
		}
		for r.Float64() < k.POps {
			run.applyOp(gi, weighted(r, k.Ops))
		}
	}
	run.directed(s)
	env.Reconcile()
	for gi := range env.Groups {
		env.Schedule(gi)
	}
	opts := sim.ScanOpts{}
	m := run.Master
	// draw the same number of values from the master stream whatever happens (two-run comparisons rely on it)
	rFault, rCrash, rStale, rRestart := m.Float64(), m.Float64(), m.Float64(), m.Float64()
	crashAt := m.Intn(25)
	if run.nextFaults != nil {
		opts.Faults, run.nextFaults = run.nextFaults, nil
	} else if rFault < k.PFault {
		opts.Faults = run.randomFaults()
	} else if rCrash < k.PCrash {
		opts.Faults = &sim.FaultPlan{ByIndex: map[int]sim.FaultKind{crashAt: sim.FCrash}}
	}
	if (run.nextStale || rStale < k.PStale) && s > 0 {
		opts.StaleView = true
	}
	run.nextStale = false
	rMid := m.Float64()
	midPick, midKind := m.Intn(1<<30), m.Intn(9)
	if rMid < k.PMidScan && !opts.StaleView {
		// something else changes a node between the cache snapshot and escalator's fetch-latest
		var all []string
		for gi := range env.Groups {
			all = append(all, env.GroupNodeNames(gi)...)
		}
		if len(all) > 0 {
			victim := all[midPick%len(all)]
			done := false
			if midKind >= 5 {
				victim = "" // whichever node escalator writes first in this scan
			}
			change := func(name string) {
				if done || (victim != "" && name != victim) {
					return
				}
				victim = name
				done = true
				if midKind >= 7 {
					// a foreign taint in front of the others is lifted (e.g. the node became ready again)
					env.K.MutateNode(victim, func(x *v1.Node) {
						for i, t := range x.Spec.Taints {
							if t.Key != sim.EscalatorTaint && t.Key != sim.ForceTaint {
								x.Spec.Taints = append(append([]v1.Taint{}, x.Spec.Taints[:i]...), x.Spec.Taints[i+1:]...)
								break
							}
						}
					})
					run.tracef("  mid-scan: a foreign taint of %s lifted (kind %d)", victim, midKind)
					return
				}
				switch midKind % 5 {
				case 4:
					env.RemoveNodeAndPods(victim)
				case 0:
					env.SetCordon(victim, true)
				case 1:
					env.SetTaint(victim, sim.EscalatorTaint, fmt.Sprint(time.Now().Unix()-5), v1.TaintEffectNoSchedule)
				case 2:
					env.K.MutateNode(victim, func(x *v1.Node) {
						x.Spec.Taints = append(x.Spec.Taints, v1.Taint{Key: "node.kubernetes.io/unreachable", Effect: v1.TaintEffectNoExecute})
					})
				case 3:
					env.RemoveTaint(victim, sim.EscalatorTaint)
				}
				run.tracef("  mid-scan: %s changed (kind %d)", victim, midKind)
			}
			if midKind >= 5 {
				// between escalator's read and its write: the update meets a genuine resourceVersion conflict
				opts.BeforeUpdate = change
			} else {
				opts.BeforeGet = change
			}
			opts.MidScan = true
		}
	}
	rec := env.RunScan(opts)
	sc := run.H.Observe(rec)
	if run.Trace != nil {
		run.traceScan(sc)
	}
	run.H.CheckScan(sc, run.Rep)

	restart := rec.Crashed || rec.Err != nil || rec.Panic != nil || rRestart < k.PRestart
	if restart {
		if err := env.Start(); err != nil {
			run.Rep.Violate("C20", "restart-failed", "controller could not be re-created: %v", err)
		}
		run.tracef("  -- controller restarted (epoch %d)", env.Epoch)
	}
	run.advanceClock()
	return sc
}

func (run *Run) randomFaults() *sim.FaultPlan {
	m := run.Master
	fp := &sim.FaultPlan{ByIndex: map[int]sim.FaultKind{}}
	n := 1 + m.Intn(2)
	for i := 0; i < n; i++ {
		kind := pick(m, sim.FNotFound, sim.FConflict, sim.FServerErr, sim.FThrottle, sim.FValidation, sim.FServerErr, sim.FAfterEffect)
		fp.ByIndex[m.Intn(30)] = kind
	}
	if m.Intn(5) == 0 {
		// every call on one node fails
		var all []string
		for gi := range run.Env.Groups {
			all = append(all, run.Env.GroupNodeNames(gi)...)
		}
		if len(all) > 0 {
			fp.ByNode = map[string]sim.FaultKind{all[m.Intn(len(all))]: pick(m, sim.FNotFound, sim.FConflict, sim.FServerErr)}
		}
	}
	return fp
}

// advanceClock moves virtual time to the next scan. With probability PBoundary the instant is chosen
// so that some node's grace period, the cool-down or max_node_age is hit exactly or missed by one second.
func (run *Run) advanceClock() {
	m := run.Master
	k := run.K
	now := time.Now()
	if !k.StatelessClock && m.Float64() < k.PBoundary {
		var cands []time.Time
		for gi := range run.Env.Groups {
			cfg := monitor.BaseCfg(run.Env, gi)
			for _, name := range run.Env.GroupNodeNames(gi) {
				n := run.Env.K.Nodes[name]
				if sec, ok, in := oracle.TaintTime(n); ok && in && sec.Int64() > now.Unix()-7200 && sec.Int64() <= now.Unix() {
					t := time.Unix(sec.Int64(), 0)
					cands = append(cands, t.Add(cfg.Soft), t.Add(cfg.Hard))
				}
				if cfg.MaxNodeAge > 0 && !n.CreationTimestamp.IsZero() {
					cands = append(cands, n.CreationTimestamp.Time.Add(cfg.MaxNodeAge))
				}
			}
			st := run.H.States[gi]
			if st.Lock.Armed {
				cands = append(cands, time.Unix(0, st.Lock.At).Add(cfg.CoolDown))
			}
		}
		var future []time.Time
		for _, c := range cands {
			for _, d := range []time.Duration{-time.Second, 0, 0, time.Second, -400 * time.Millisecond, -time.Millisecond, time.Millisecond, 600 * time.Millisecond} {
				t := c.Add(d)
				if t.After(now) && t.Sub(now) <= 3*time.Hour {
					future = append(future, t)
				}
			}
		}
		if len(future) > 0 {
			sort.Slice(future, func(i, j int) bool { return future[i].Before(future[j]) })
			// prefer the nearest few
			idx := m.Intn(minI(len(future), 6))
			sim.Advance(future[idx].Sub(now))
			return
		}
	}
	d := pick(m, time.Second, 10*time.Second, 30*time.Second, run.scanInterval, run.scanInterval, run.scanInterval, 2*time.Minute, 5*time.Minute, 11*time.Minute)
	sim.Advance(d)
}

func minI(a, b int) int {
	if a < b {
		return a
	}
	return b
}

func (run *Run) traceScan(sc *monitor.ScanCtx) {
	rec := sc.Rec
	fmt.Fprintf(run.Trace, "== scan %d epoch %d t=%s exact=%v stale=%v faults=%d err=%v panic=%v crashed=%v\n", rec.No, rec.Epoch,
		time.Unix(0, rec.Start).UTC().Format("15:04:05"), sc.Exact, rec.Stale, rec.FaultHits, rec.Err, rec.Panic, rec.Crashed)
	for _, g := range sc.Groups {
		fmt.Fprintf(run.Trace, "  group %s dry=%v min=%d max=%d N=%d U=%d T=%d F=%d C=%d pods=%d stage=%s band=%s u=%s locked=%v cache=%v\n",
			g.Cfg.Name, g.Dry, g.Cfg.Min, g.Cfg.Max, len(g.View.Nodes), len(g.View.Untainted), len(g.View.TaintedN), len(g.View.Force), len(g.View.Cordon),
			len(g.View.Pods), g.Plan.Stage, g.Plan.Band, ratS(g), g.Locked, cacheS(g))
		for _, n := range g.View.Nodes {
			fmt.Fprintf(run.Trace, "     node %s %s created=%s taints=%s pods=%d anno=%q\n", n.Name, g.View.Class[n.Name],
				n.CreationTimestamp.UTC().Format("01-02T15:04:05"), sim.TaintsString(n.Spec.Taints), g.View.PodsOn[n.Name], n.Annotations[oracle.NoDeleteAnno])
		}
	}
	for _, e := range rec.Events {
		fmt.Fprintf(run.Trace, "    %s\n", e)
	}
}

func ratS(g *monitor.GroupCtx) string {
	if g.Plan.U == nil {
		return "n/a"
	}
	return g.Plan.U.FloatString(4)
}

func cacheS(g *monitor.GroupCtx) string {
	if g.Cache == nil {
		return "none"
	}
	return fmt.Sprintf("{des=%d min=%d max=%d n=%d}", g.Cache.Desired, g.Cache.Min, g.Cache.Max, len(g.Cache.ProviderIDs))
}

// quantity helpers used by the odd-shape generator
func qty(s string) resource.Quantity { return resource.MustParse(s) }
