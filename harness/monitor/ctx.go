// Package monitor holds the per-property monitors that judge recorded scans
// against the oracle, and the bookkeeping (lock model, size cache, coverage).
package monitor

import (
	"fmt"
	"math/big"
	"sort"
	"strings"
	"time"

	"verifharness/oracle"
	"verifharness/sim"

	v1 "k8s.io/api/core/v1"
)

// Violation is one refuted observation.
type Violation struct {
	Prop string `json:"property"`
	Key  string `json:"key"` // structural predicate used to match known findings
	Msg  string `json:"msg"`
	Case string `json:"case"`
	Scan int    `json:"scan"`
}

// Report accumulates verdict material over many histories.
type Report struct {
	Violations []Violation
	Cover      map[string]map[string]int // property -> signature -> hits
	DontCare   map[string]map[string]int
	Count      map[string]map[string]int
	Samples    map[string][]string
	// Unmodelled: histories in which escalator made an API call the simulated services do not model (case id -> the call).
	// Nothing observed in such a history can be judged: the call was answered "not supported".
	Unmodelled map[string]string
	caseID     string
	scanNo     int
	MaxViol    int
}

// NoteUnmodelled records that the current history contains a call the simulation cannot answer faithfully.
func (r *Report) NoteUnmodelled(what string) {
	if r.Unmodelled == nil {
		r.Unmodelled = map[string]string{}
	}
	if _, ok := r.Unmodelled[r.caseID]; !ok {
		r.Unmodelled[r.caseID] = what
	}
}

func NewReport() *Report {
	return &Report{Cover: map[string]map[string]int{}, DontCare: map[string]map[string]int{}, Count: map[string]map[string]int{},
		Samples: map[string][]string{}, MaxViol: 60}
}

func bump(m map[string]map[string]int, p, k string) {
	if m[p] == nil {
		m[p] = map[string]int{}
	}
	m[p][k]++
}

func (r *Report) SetCase(id string)  { r.caseID = id }
func (r *Report) SetScan(n int)      { r.scanNo = n }
func (r *Report) Covered(p, sig string) { bump(r.Cover, p, sig) }
func (r *Report) DC(p, what string)   { bump(r.DontCare, p, what) }
func (r *Report) Inc(p, what string)  { bump(r.Count, p, what) }
func (r *Report) Sample(p, s string) {
	if len(r.Samples[p]) < 6 {
		r.Samples[p] = append(r.Samples[p], s)
	}
}

func (r *Report) Violate(p, key, format string, args ...interface{}) {
	bump(r.Count, p, "violations")
	// the cap is per property: a flood of violations of one property must not hide another's
	if r.Count[p]["violations"] > r.MaxViol {
		return
	}
	r.Violations = append(r.Violations, Violation{Prop: p, Key: key, Msg: fmt.Sprintf(format, args...), Case: r.caseID, Scan: r.scanNo})
}

// LockModel is the monitor's own model of a group's cool-down lock.
type LockModel struct {
	Armed bool
	At    int64 // virtual nanos at which the accepted scale-up completed
	Epoch int
	Dry   bool
}

// GroupState is what the monitors remember about a group across scans.
type GroupState struct {
	Lock      LockModel
	CachedCPU *big.Int
	CachedMem *big.Int
	CacheEpoch int
	// consecutive failed fleet scale-ups of the group in this controller lifetime
	FleetFailStreak int
	FleetStreakEpoch int
}

// History carries the cross-scan model state for one simulated deployment.
type History struct {
	Env    *sim.Env
	Case   string
	States []*GroupState
	Prev   *ScanCtx
	// set when a scan was faulted, cleared by the next exact scan
	PendingPostFault bool
}

func NewHistory(env *sim.Env, caseID string) *History {
	h := &History{Env: env, Case: caseID}
	for range env.Groups {
		h.States = append(h.States, &GroupState{})
	}
	return h
}

// NodeObs summarises what happened to one node in a group segment.
type NodeObs struct {
	GetErr, PutErr   bool
	AlreadyTainted   bool // fetch-latest returned an object already carrying the escalator taint
	AlreadyUntainted bool
}

// GroupCtx is everything the monitors know about one group in one scan.
type GroupCtx struct {
	GI      int
	Cfg     *oracle.Cfg
	Spec    *sim.GroupSpec
	Reached bool
	Now     int64
	Events  []*sim.Event
	View    *oracle.GroupView
	Plan    *oracle.Plan
	Cache   *sim.ASGSnap
	Locked  bool // lock model armed at Now
	LockElapsed int64
	Dry     bool

	TaintAdds    []string // successful PUTs that added the escalator taint
	TaintAddTry  []string // all PUTs that tried to
	Untaints     []string
	UntaintTry   []string
	TermOK       []string // instance ids
	TermTry      []string
	Deleted      []string
	DeleteTry    []string
	SetDesired   []*sim.Event
	Fleets       []*sim.Event
	Attach       []*sim.Event
	TermIns      []*sim.Event
	Writes       []*sim.Event
	NodeObs      map[string]*NodeObs
	CloudIncrease int64 // accepted increase of desired capacity requested in this segment (intended, relative to the cache)
	IncreaseAccepted bool
	IncreaseAt   int64
	IncreaseTried bool
	FleetFailStreak int // consecutive fleet scale-ups of this group whose instances had to be cleaned up, this one included
}

// ScanCtx is a scan plus its per-group contexts.
type ScanCtx struct {
	Rec    *sim.ScanRecord
	Groups []*GroupCtx
	// Exact: fault-free, fresh view, no crash/panic: exact-count oracles apply
	Exact bool
	// UpExact: the only injected failures hit the removal calls (cloud terminate, Node delete): what the scan
	// needs and how it must split it between untainting and the cloud is still exactly known
	UpExact   bool
	PostFault bool
}

func hasKey(n *v1.Node, key string) bool {
	if n == nil {
		return false
	}
	for _, t := range n.Spec.Taints {
		if t.Key == key {
			return true
		}
	}
	return false
}

func instanceOf(providerID string) string {
	i := strings.LastIndex(providerID, "/")
	if i < 0 {
		return providerID
	}
	return providerID[i+1:]
}

// BaseCfg turns the configured options into the oracle's configuration.
func BaseCfg(env *sim.Env, gi int) *oracle.Cfg {
	o := env.Groups[gi].Opts
	parse := func(s string) time.Duration { d, _ := time.ParseDuration(s); return d }
	return &oracle.Cfg{
		Name: o.Name, LabelKey: o.LabelKey, LabelValue: o.LabelValue, ASG: o.CloudProviderGroupName,
		Min: o.MinNodes, Max: o.MaxNodes, AutoDiscover: o.MinNodes == 0 && o.MaxNodes == 0,
		Lower: o.TaintLowerCapacityThresholdPercent, Upper: o.TaintUpperCapacityThresholdPercent, ScaleUp: o.ScaleUpThresholdPercent,
		Slow: o.SlowNodeRemovalRate, Fast: o.FastNodeRemovalRate,
		Soft: parse(o.SoftDeleteGracePeriod), Hard: parse(o.HardDeleteGracePeriod), CoolDown: parse(o.ScaleUpCoolDownPeriod),
		MaxNodeAge: parse(o.MaxNodeAge), Effect: o.TaintEffect, ScaleOnStarve: o.ScaleOnStarve,
		Dry: env.GroupDry(gi), Fleet: o.AWS.LaunchTemplateID != "",
	}
}

// Observe builds the scan context and advances the cross-scan models.
func (h *History) Observe(rec *sim.ScanRecord) *ScanCtx {
	sc := &ScanCtx{Rec: rec}
	sc.Exact = rec.FaultHits == 0 && !rec.Stale && !rec.MidScan && !rec.Crashed && rec.Panic == nil && !rec.Fatal
	// UpExact: what the scan needs is still exactly known from the view it was served (also a stale one), and how it
	// must split it between untainting and the cloud can be judged, as long as the injected failures are clean
	// failures of node reads/writes or removal calls (no lost reply, nothing wrong with lists, describes or resizes)
	sc.UpExact = !rec.Crashed && rec.Panic == nil && !rec.Fatal
	for _, e := range rec.Events {
		if e.API == sim.AwsDescASG && e.Note != "" {
			sc.UpExact = false // the refresh left a group out: its cached description is a scan old
		}
		if !e.Injected {
			continue
		}
		switch e.API {
		case sim.AwsTermASG, sim.K8sDelete, sim.K8sGet, sim.K8sUpdate:
			if e.Applied {
				sc.UpExact = false // lost reply
			}
		default:
			sc.UpExact = false
		}
	}
	nodes, pods := rec.View.PristineNodes(), rec.View.PristinePods()

	// a new controller lifetime forgets lock and cached node size
	for _, st := range h.States {
		if st.Lock.Epoch != rec.Epoch {
			st.Lock = LockModel{Epoch: rec.Epoch}
		}
		if st.CacheEpoch != rec.Epoch {
			st.CachedCPU, st.CachedMem, st.CacheEpoch = nil, nil, rec.Epoch
		}
	}

	// split events into group segments
	seg := map[int][]*sim.Event{}
	for _, e := range rec.Events {
		seg[e.Group] = append(seg[e.Group], e)
	}

	for gi := range h.Env.Groups {
		st := h.States[gi]
		cfg := BaseCfg(h.Env, gi)
		g := &GroupCtx{GI: gi, Cfg: cfg, Spec: &h.Env.Groups[gi], NodeObs: map[string]*NodeObs{}, Dry: cfg.Dry}
		g.Cache = rec.Cache[cfg.ASG]
		if cfg.AutoDiscover && g.Cache != nil {
			cfg.Min, cfg.Max = int(g.Cache.Min), int(g.Cache.Max)
		}
		g.Events = seg[gi]
		g.Reached = len(g.Events) > 0
		g.Now = rec.Start
		if g.Reached {
			g.Now = g.Events[0].VTime
		}
		g.View = oracle.BuildView(cfg, nodes, pods)

		// lock model at the time the group is looked at
		if st.Lock.Armed {
			g.LockElapsed = g.Now - st.Lock.At
			if g.LockElapsed >= int64(cfg.CoolDown) {
				st.Lock.Armed = false
			}
		}
		g.Locked = st.Lock.Armed

		// the controller remembers the size of the first listed node of the group, in this lifetime, as soon
		// as it has listed the nodes (that is: before it decides)
		if g.Reached && listedNodes(g.Events) && len(g.View.Nodes) > 0 {
			st.CachedCPU, st.CachedMem = oracle.NodeAlloc(g.View.Nodes[0])
		}
		g.Plan = oracle.Decide(oracle.Input{View: g.View, NowNanos: g.Now, Locked: g.Locked, CachedCPU: st.CachedCPU, CachedMem: st.CachedMem})
		h.derive(g, rec)
		if st.FleetStreakEpoch != rec.Epoch || rec.Rebuilt {
			// the counter lives in the provider's group object: a new controller or a rebuilt provider starts at zero
			st.FleetFailStreak, st.FleetStreakEpoch = 0, rec.Epoch
		}
		if len(g.Fleets) > 0 {
			if g.IncreaseAccepted {
				st.FleetFailStreak = 0
			} else {
				ok := false
				for _, e := range g.Fleets {
					if e.OK() && e.Fleet != nil && len(e.Fleet.Returned) > 0 {
						ok = true // instances were acquired and then not attached: the clean-up path ran
					}
				}
				if ok {
					st.FleetFailStreak++
				}
			}
		}
		g.FleetFailStreak = st.FleetFailStreak
		// arm the lock model when the cloud accepted an increase
		if g.IncreaseAccepted {
			st.Lock = LockModel{Armed: true, At: g.IncreaseAt, Epoch: rec.Epoch}
		}
		sc.Groups = append(sc.Groups, g)
	}
	sc.PostFault = h.PendingPostFault && sc.Exact
	if !sc.Exact {
		h.PendingPostFault = true
	} else {
		h.PendingPostFault = false
	}
	return sc
}

func listedNodes(evs []*sim.Event) bool {
	for _, e := range evs {
		if e.API == sim.ListNodes && e.OK() {
			return true
		}
	}
	return false
}

func (g *GroupCtx) obs(name string) *NodeObs {
	o := g.NodeObs[name]
	if o == nil {
		o = &NodeObs{}
		g.NodeObs[name] = o
	}
	return o
}

// derive classifies the segment's events.
func (h *History) derive(g *GroupCtx, rec *sim.ScanRecord) {
	var fleetIDs map[string]bool
	fleetOK := false
	attached := 0
	for _, e := range g.Events {
		if e.IsWrite() {
			g.Writes = append(g.Writes, e)
		}
		switch e.API {
		case sim.K8sGet:
			o := g.obs(e.Target)
			if !e.OK() {
				o.GetErr = true
			} else if e.Before != nil {
				if hasKey(e.Before, oracle.EscalatorTaint) {
					o.AlreadyTainted = true
				} else {
					o.AlreadyUntainted = true
				}
			}
		case sim.K8sUpdate:
			adds := e.Sent != nil && hasKey(e.Sent, oracle.EscalatorTaint) && !hasKey(e.Before, oracle.EscalatorTaint)
			removes := e.Sent != nil && !hasKey(e.Sent, oracle.EscalatorTaint) && hasKey(e.Before, oracle.EscalatorTaint)
			if !e.OK() {
				g.obs(e.Target).PutErr = true
			}
			if adds {
				g.TaintAddTry = append(g.TaintAddTry, e.Target)
				if e.Applied {
					g.TaintAdds = append(g.TaintAdds, e.Target)
				}
			}
			if removes {
				g.UntaintTry = append(g.UntaintTry, e.Target)
				if e.Applied {
					g.Untaints = append(g.Untaints, e.Target)
				}
			}
		case sim.K8sDelete:
			g.DeleteTry = append(g.DeleteTry, e.Target)
			if e.Applied {
				g.Deleted = append(g.Deleted, e.Target)
			}
		case sim.AwsTermASG:
			g.TermTry = append(g.TermTry, e.Target)
			if e.Applied {
				g.TermOK = append(g.TermOK, e.Target)
			}
		case sim.AwsSetDes:
			g.SetDesired = append(g.SetDesired, e)
			g.IncreaseTried = true
			if e.OK() {
				// escalator resizes the cloud group only to scale up: an accepted call is an accepted scale-up
				g.IncreaseAccepted = true
				g.IncreaseAt = e.VTime
				g.CloudIncrease = e.Desired - e.CloudDesired
			}
		case sim.AwsFleet:
			g.Fleets = append(g.Fleets, e)
			g.IncreaseTried = true
			if e.OK() && e.Fleet != nil && len(e.Fleet.Returned) > 0 {
				fleetOK = true
				fleetIDs = map[string]bool{}
				for _, id := range e.Fleet.Returned {
					fleetIDs[id] = true
				}
			}
		case sim.AwsAttach:
			g.Attach = append(g.Attach, e)
			if e.OK() {
				attached += len(e.IDs)
				g.IncreaseAt = e.VTime
			} else {
				fleetOK = false
			}
		case sim.AwsTermIns:
			g.TermIns = append(g.TermIns, e)
			fleetOK = false
		}
	}
	if len(g.Fleets) > 0 && fleetOK && attached == len(fleetIDs) && attached > 0 {
		g.IncreaseAccepted = true
		g.CloudIncrease = int64(attached)
	}
}

// ViewNodeByInstance maps an instance id to the group-view node backed by it.
func (g *GroupCtx) ViewNodeByInstance(id string) *v1.Node {
	for _, n := range g.View.Nodes {
		if instanceOf(n.Spec.ProviderID) == id {
			return n
		}
	}
	return nil
}

// AnyViewNodeByInstance searches the whole served view.
func AnyViewNodeByInstance(rec *sim.ScanRecord, id string) *v1.Node {
	for _, n := range rec.View.PristineNodes() {
		if instanceOf(n.Spec.ProviderID) == id {
			return n
		}
	}
	return nil
}

func AnyViewNode(rec *sim.ScanRecord, name string) *v1.Node {
	for _, n := range rec.View.PristineNodes() {
		if n.Name == name {
			return n
		}
	}
	return nil
}

// Attempted reports whether a get or update on the node failed in this segment.
func (g *GroupCtx) FailedAttempt(name string) bool {
	o := g.NodeObs[name]
	return o != nil && (o.GetErr || o.PutErr)
}

func set(names []string) map[string]bool {
	m := map[string]bool{}
	for _, n := range names {
		m[n] = true
	}
	return m
}

func sortedCopy(s []string) []string {
	out := append([]string(nil), s...)
	sort.Strings(out)
	return out
}

func sameSet(a, b []string) bool {
	if len(a) != len(b) {
		return false
	}
	x, y := sortedCopy(a), sortedCopy(b)
	for i := range x {
		if x[i] != y[i] {
			return false
		}
	}
	return true
}

func bucket(d int64) string {
	switch {
	case d <= -2:
		return "<<"
	case d == -1:
		return "-1"
	case d == 0:
		return "=="
	case d == 1:
		return "+1"
	default:
		return ">>"
	}
}

// DesiredBefore is the group's real desired capacity when event e arrived, as far as this scan can know it:
// the describe snapshot of the scan minus the terminations accepted earlier in the same segment.
func (g *GroupCtx) DesiredBefore(e *sim.Event) int64 {
	if g.Cache == nil {
		return 0
	}
	d := g.Cache.Desired
	for _, x := range g.Events {
		if e != nil && x.Seq >= e.Seq {
			break
		}
		if x.API == sim.AwsTermASG && x.Applied && x.Decrement != nil && *x.Decrement {
			d--
		}
	}
	return d
}

// Bound is min(max_nodes, cloud maximum) for the group in this scan.
func (g *GroupCtx) Bound() int64 {
	b := int64(g.Cfg.Max)
	if g.Cache != nil && g.Cache.Max < b {
		b = g.Cache.Max
	}
	return b
}
