package monitor

import (
	"fmt"
	"math"
	"math/big"
	"sort"
	"strings"

	"verifharness/oracle"
	"verifharness/sim"

	"github.com/atlassian/escalator/pkg/cloudprovider"
	v1 "k8s.io/api/core/v1"
)

// CheckScan runs every history monitor on one observed scan.
func (h *History) CheckScan(sc *ScanCtx, r *Report) {
	r.SetCase(h.Case)
	r.SetScan(sc.Rec.No)
	for _, g := range sc.Groups {
		checkC01(h, sc, g, r)
		checkC02(h, sc, g, r)
		checkC03(h, sc, g, r)
		checkC04(h, sc, g, r)
		checkC05C06C07(h, sc, g, r)
		checkC08(h, sc, g, r)
		checkC09(h, sc, g, r)
		checkC10(h, sc, g, r)
		checkC11(h, sc, g, r)
		checkC12(h, sc, g, r)
		checkC13(h, sc, g, r)
		checkC15(h, sc, g, r)
		checkC19(h, sc, g, r)
	}
	checkC15Scan(h, sc, r)
	checkC12Abort(h, sc, r)
	checkC20(h, sc, r)
	h.Prev = sc
}

// ---- C01 ---------------------------------------------------------------------------------------

func removalTargets(sc *ScanCtx, g *GroupCtx) []struct {
	ev   *sim.Event
	node *v1.Node
	name string
} {
	var out []struct {
		ev   *sim.Event
		node *v1.Node
		name string
	}
	for _, e := range g.Events {
		switch e.API {
		case sim.AwsTermASG:
			n := g.ViewNodeByInstance(e.Target)
			name := e.Target
			if n != nil {
				name = n.Name
			}
			out = append(out, struct {
				ev   *sim.Event
				node *v1.Node
				name string
			}{e, n, name})
		case sim.K8sDelete:
			out = append(out, struct {
				ev   *sim.Event
				node *v1.Node
				name string
			}{e, g.View.Node(e.Target), e.Target})
		}
	}
	return out
}

func checkC01(h *History, sc *ScanCtx, g *GroupCtx, r *Report) {
	const P = "C01"
	if g.Dry {
		return
	}
	removed := map[string]bool{}
	for _, t := range removalTargets(sc, g) {
		r.Inc(P, "removal-calls")
		if t.node == nil {
			r.Violate(P, "removal-of-node-not-in-group-view", "%s targets %s which is not a node of group %s in the served view", t.ev.API, t.name, g.Cfg.Name)
			continue
		}
		removed[t.node.Name] = true
		cl := g.View.Class[t.node.Name]
		clause := g.View.RemovalClause(t.node, t.ev.VTime)
		if clause == "" {
			why := "unknown"
			switch cl {
			case oracle.Cordoned:
				why = "cordoned"
			case oracle.Untainted:
				why = "untainted"
			case oracle.ForceTainted:
				why = "force-tainted-but-busy"
			case oracle.Tainted:
				sec, ok, _ := oracle.TaintTime(t.node)
				switch {
				case !ok:
					why = "taint-time-unreadable"
				case !oracle.ElapsedMoreThan(t.ev.VTime, sec, g.Cfg.Soft):
					why = "within-soft-grace"
				default:
					why = "busy-within-hard-grace"
				}
			}
			r.Violate(P, "ineligible-removal:"+why, "%s of node %s (%s) at t=%d: class=%s taints=%s pods=%d soft=%v hard=%v",
				t.ev.API, t.node.Name, why, t.ev.VTime/1e9, cl, sim.TaintsString(t.node.Spec.Taints), g.View.PodsOn[t.node.Name], g.Cfg.Soft, g.Cfg.Hard)
			continue
		}
		sig := "removed:" + clause
		if clause != "c" {
			sec, _, _ := oracle.TaintTime(t.node)
			if sec.IsInt64() {
				el := t.ev.VTime/1e9 - sec.Int64()
				sig += fmt.Sprintf(":soft%s:hard%s", bucket(el-int64(g.Cfg.Soft.Seconds())), bucket(el-int64(g.Cfg.Hard.Seconds())))
			} else {
				sig += ":absurd-past"
			}
		}
		if g.View.PodsOn[t.node.Name] > 0 {
			sig += ":busy"
		}
		if oracle.Protected(t.node) {
			sig += ":annotated"
		}
		if sc.Rec.Epoch > 1 {
			sig += ":after-restart"
		}
		if sc.Rec.Stale {
			sig += ":stale-view"
		}
		r.Covered(P, sig)
		r.Sample(P, fmt.Sprintf("case %s scan %d: %s node=%s clause=%s taints=%s pods=%d", h.Case, sc.Rec.No, t.ev.API, t.node.Name, clause, sim.TaintsString(t.node.Spec.Taints), g.View.PodsOn[t.node.Name]))
	}
	if g.Reached && (g.Plan.Stage == oracle.StAboveMaxN || g.Plan.Stage == oracle.StBelowMinN) {
		busyExpired := false
		for _, n := range g.View.TaintedN {
			if sec, ok, in := oracle.TaintTime(n); ok && in && oracle.ElapsedMoreThan(g.Now, sec, g.Cfg.Soft) && g.View.PodsOn[n.Name] > 0 {
				busyExpired = true
			}
		}
		r.Covered(P, fmt.Sprintf("out-of-bounds-scan:%s:busy-node-past-soft=%v", g.Plan.Stage, busyExpired))
	}
	// retained nodes sitting exactly on a boundary (the strict > must keep them)
	if g.Reached && g.Plan.Stage == oracle.StDecide {
		for _, n := range g.View.TaintedN {
			if removed[n.Name] {
				continue
			}
			sec, ok, inRange := oracle.TaintTime(n)
			if !ok {
				r.Covered(P, "retained:unreadable")
				continue
			}
			if !inRange {
				r.Covered(P, "retained:out-of-range")
				continue
			}
			el := g.Now/1e9 - sec.Int64()
			switch {
			case el == int64(g.Cfg.Soft.Seconds()) && g.Now%1e9 == 0:
				r.Covered(P, "retained:elapsed==soft")
			case el == int64(g.Cfg.Hard.Seconds()) && g.Now%1e9 == 0 && g.View.PodsOn[n.Name] > 0:
				r.Covered(P, "retained:elapsed==hard:busy")
			case el < 0:
				r.Covered(P, "retained:future")
			}
		}
	}
}

// ---- C02 ---------------------------------------------------------------------------------------

func checkC02(h *History, sc *ScanCtx, g *GroupCtx, r *Report) {
	const P = "C02"
	if g.Dry || !g.Reached {
		return
	}
	st := h.States[g.GI]
	if g.Locked {
		r.Inc(P, "locked-scans")
		pressure := string(g.Plan.Stage)
		if len(g.View.Force) > 0 {
			pressure += "+force"
		}
		for _, n := range g.View.TaintedN {
			if g.View.RemovalClause(n, g.Now) != "" {
				pressure += "+expired"
				break
			}
		}
		if len(g.View.Untainted) < g.Cfg.Min {
			pressure += "+belowmin"
		}
		r.Covered(P, "locked:"+pressure+":left"+bucket((int64(g.Cfg.CoolDown)-g.LockElapsed)/1e9))
		for _, e := range g.Writes {
			branch := "decision"
			if len(g.View.Untainted) < g.Cfg.Min {
				branch = "untainted-below-min"
			}
			r.Violate(P, "write-while-locked:"+branch, "group %s: %s during cool-down (lock taken %ds ago, cool-down %v, untainted=%d min=%d)",
				g.Cfg.Name, e, g.LockElapsed/1e9, g.Cfg.CoolDown, len(g.View.Untainted), g.Cfg.Min)
			break
		}
		return
	}
	// released: the group must be acted on again. An exact scan whose plan demands an action
	// and that shows no write at all, right after a cool-down, means the lock outlived it.
	if st.Lock.At != 0 && st.Lock.Epoch == sc.Rec.Epoch && !st.Lock.Armed && sc.Exact && g.LockElapsed >= int64(g.Cfg.CoolDown) && g.LockElapsed > 0 {
		needs := planDemandsWrite(g)
		if needs != "" {
			sig := "released:" + needs
			if g.LockElapsed == int64(g.Cfg.CoolDown) {
				sig += ":elapsed==cooldown"
			}
			r.Covered(P, sig)
			if len(g.Writes) == 0 {
				r.Violate(P, "idle-after-cooldown", "group %s: %ds after the accepted scale-up (cool-down %v) the plan demands %s but the scan wrote nothing",
					g.Cfg.Name, g.LockElapsed/1e9, g.Cfg.CoolDown, needs)
			}
		}
	}
}

// planDemandsWrite names an action the exact plan requires (empty when none is certain).
func planDemandsWrite(g *GroupCtx) string {
	p := g.Plan
	switch p.Stage {
	case oracle.StBelowMinU:
		if len(g.View.TaintedN) > 0 {
			return "untaint-below-min"
		}
		if g.Cache != nil && g.DesiredBefore(nil) < g.Bound() {
			return "cloud-below-min"
		}
	case oracle.StDecide:
		if p.BandDontCare != "" {
			return ""
		}
		if len(p.ForceReap) > 0 && cloudWouldAccept(g, len(p.ForceReap)) && allMembers(g, p.ForceReap) {
			return "force-reap"
		}
		if (p.Band == "fast" || p.Band == "slow") && p.Taints > 0 && p.Starve == oracle.MustNot && p.Age == oracle.MustNot {
			return "taint"
		}
		if p.Band == "up" && (len(g.View.TaintedN) > 0 || (g.Cache != nil && g.DesiredBefore(nil) < g.Bound())) {
			return "scale-up"
		}
	}
	return ""
}

// allMembers: every named view node is backed by an instance the cloud group lists (a Node that outlives its
// instance is refused by the provider before any call).
func allMembers(g *GroupCtx, names []string) bool {
	for _, name := range names {
		n := g.View.Node(name)
		if n == nil || g.Cache == nil || !g.Cache.Has(n.Spec.ProviderID) {
			return false
		}
	}
	return true
}

func cloudWouldAccept(g *GroupCtx, n int) bool {
	return g.Cache != nil && g.Cache.Desired > g.Cache.Min && g.Cache.Desired-int64(n) >= g.Cache.Min
}

// ---- C03 ---------------------------------------------------------------------------------------

func checkC03(h *History, sc *ScanCtx, g *GroupCtx, r *Report) {
	const P = "C03"
	if g.Dry || !g.Reached {
		return
	}
	U := len(g.View.Untainted)
	adds := len(g.TaintAdds)
	if g.Cfg.AutoDiscover && g.Cache != nil && g.Cache.Min == g.Cache.Max {
		// the cloud group is pinned (minimum = maximum) and the group's bounds are discovered from it every scan
		r.Covered(P, fmt.Sprintf("pinned-cloud-group:untainted-vs-min%s:stage=%v", bucket(int64(U)-g.Cache.Min), g.Plan.Stage))
	}
	for _, e := range g.Events {
		if e.API == sim.K8sUpdate && e.Injected && e.Applied {
			// a lost reply: the taint landed but escalator was told it failed
			r.DC(P, "taint write applied but reported as failed (lost reply)")
			return
		}
	}
	if adds > 0 {
		r.Inc(P, "scans-with-taints")
		margin := U - adds - g.Cfg.Min
		sig := fmt.Sprintf("taint:margin%s", bucket(int64(margin)))
		if g.Cfg.AutoDiscover {
			sig += ":autodiscovered"
		}
		if g.Cfg.Min == 0 {
			sig += ":min0"
		}
		if g.Plan.Band == "fast" && g.Cfg.Fast > U {
			sig += ":rate>group"
		}
		r.Covered(P, sig)
		if margin < 0 {
			r.Violate(P, "taint-below-min", "group %s: %d taint writes with %d untainted uncordoned nodes leave fewer than min_nodes=%d",
				g.Cfg.Name, adds, U, g.Cfg.Min)
		}
		r.Sample(P, fmt.Sprintf("case %s scan %d: U=%d min=%d taints=%d band=%s", h.Case, sc.Rec.No, U, g.Cfg.Min, adds, g.Plan.Band))
	}
	if g.Plan.Stage == oracle.StBelowMinU {
		T := len(g.View.TaintedN)
		need := g.Plan.BelowMinNeed
		sig := fmt.Sprintf("belowmin:need%d:tainted%s", minI(need, 3), bucket(int64(T-need)))
		if g.Locked {
			sig += ":locked"
		}
		r.Covered(P, sig)
		if adds > 0 {
			r.Violate(P, "taint-while-below-min", "group %s: tainted %d nodes although only %d untainted < min_nodes %d", g.Cfg.Name, adds, U, g.Cfg.Min)
		}
		if sc.Exact && !g.Locked {
			wantUntaint := minI(need, T)
			if len(g.Untaints) != wantUntaint {
				r.Violate(P, "below-min-untaint-count", "group %s: untainted %d nodes, expected min(%d needed, %d tainted)=%d", g.Cfg.Name, len(g.Untaints), need, T, wantUntaint)
			}
			rest := need - wantUntaint
			if rest > 0 && g.Cache != nil {
				head := g.Bound() - g.DesiredBefore(nil)
				if head > 0 && !g.IncreaseTried {
					r.Violate(P, "below-min-no-cloud-request", "group %s: %d nodes still missing after untainting and head-room %d, but no capacity was requested", g.Cfg.Name, rest, head)
				}
			}
			if rest == 0 && g.IncreaseTried {
				r.Violate(P, "below-min-cloud-before-untaint", "group %s: capacity requested although untainting covered the need (%d)", g.Cfg.Name, need)
			}
		}
	}
}

func minI(a, b int) int {
	if a < b {
		return a
	}
	return b
}

// ---- C04 ---------------------------------------------------------------------------------------

func checkC04(h *History, sc *ScanCtx, g *GroupCtx, r *Report) {
	const P = "C04"
	if g.Dry || !g.Reached || g.Cache == nil {
		return
	}
	bound := g.Bound()
	rel := "max_nodes=asg"
	if int64(g.Cfg.Max) < g.Cache.Max {
		rel = "max_nodes<asg"
	} else if int64(g.Cfg.Max) > g.Cache.Max {
		rel = "max_nodes>asg"
	}
	for _, e := range g.SetDesired {
		r.Inc(P, "resize-requests")
		sig := fmt.Sprintf("setdesired:%s:tobound%s", rel, bucket(bound-e.Desired))
		if len(g.View.TaintedN) > 0 {
			sig += ":tainted-present"
		}
		r.Covered(P, sig)
		if e.Desired > bound {
			key := "target-above-bound:asg-max"
			if e.Desired <= g.Cache.Max {
				key = "target-above-bound:max_nodes"
			}
			r.Violate(P, key, "group %s: SetDesiredCapacity(%d) exceeds min(max_nodes=%d, ASG max=%d)", g.Cfg.Name, e.Desired, g.Cfg.Max, g.Cache.Max)
		}
		r.Sample(P, fmt.Sprintf("case %s scan %d: SetDesiredCapacity(%d) cached desired=%d max_nodes=%d asg max=%d", h.Case, sc.Rec.No, e.Desired, g.Cache.Desired, g.Cfg.Max, g.Cache.Max))
	}
	for _, e := range g.Fleets {
		if e.Fleet == nil {
			continue
		}
		r.Inc(P, "resize-requests")
		cur := g.DesiredBefore(e)
		target := cur + e.Fleet.Total
		r.Covered(P, fmt.Sprintf("fleet:%s:tobound%s", rel, bucket(bound-target)))
		if target > bound {
			r.Violate(P, "fleet-target-above-bound", "group %s: CreateFleet(%d) on desired %d exceeds min(max_nodes=%d, ASG max=%d)", g.Cfg.Name, e.Fleet.Total, cur, g.Cfg.Max, g.Cache.Max)
		}
	}
	// clamp lands exactly on the bound / no request without head-room (exact scans only)
	if !sc.Exact || g.Locked {
		return
	}
	need, ok := expectedUp(g)
	if !ok {
		return
	}
	T := len(g.View.TaintedN)
	restMin := need.lo - minI(need.lo, T)
	if restMin <= 0 {
		return
	}
	cur := g.DesiredBefore(nil)
	requested := int64(0)
	for _, e := range g.SetDesired {
		cur = g.DesiredBefore(e)
		requested = e.Desired - cur
	}
	for _, e := range g.Fleets {
		if e.Fleet != nil {
			cur = g.DesiredBefore(e)
			requested = e.Fleet.Total
		}
	}
	head := bound - cur
	switch {
	case head <= 0:
		r.Covered(P, "no-headroom:"+rel)
		if g.IncreaseTried {
			r.Violate(P, "request-without-headroom", "group %s: capacity requested although desired %d already reaches the bound %d", g.Cfg.Name, cur, bound)
		}
	case int64(restMin) > head:
		r.Covered(P, "clamped:"+rel)
		if requested != head {
			r.Violate(P, "clamp-not-on-bound", "group %s: needed at least %d more, head-room %d: requested %d instead of landing on the bound %d", g.Cfg.Name, restMin, head, requested, bound)
		}
	}
}

type upRange struct{ lo, hi int }

// expectedUp: how many nodes the scan must bring into service, when the plan knows.
func expectedUp(g *GroupCtx) (upRange, bool) {
	p := g.Plan
	switch p.Stage {
	case oracle.StBelowMinU:
		return upRange{p.BelowMinNeed, p.BelowMinNeed}, true
	case oracle.StDecide:
		if p.Band == "up" && p.UpKnown && p.BandDontCare == "" {
			lo := p.UpMin
			if lo < 1 {
				lo = 1
			}
			return upRange{lo, lo + 1}, true
		}
	}
	return upRange{}, false
}

// ---- C05 / C06 / C07 --------------------------------------------------------------------------------

func checkC05C06C07(h *History, sc *ScanCtx, g *GroupCtx, r *Report) {
	if g.Dry || !g.Reached {
		return
	}
	p := g.Plan
	T := len(g.View.TaintedN)
	U := len(g.View.Untainted)

	// --- C07 safety clauses hold in every scan (faulted or not)
	if len(g.UntaintTry) > 0 || g.IncreaseTried {
		untainted := set(g.Untaints)
		failed := map[string]bool{}
		for _, n := range g.View.TaintedN {
			o := g.NodeObs[n.Name]
			if g.FailedAttempt(n.Name) || (o != nil && o.AlreadyUntainted) {
				failed[n.Name] = true
			}
		}
		if newer, older, ok := oracle.NewestFirstOK(g.View.TaintedN, untainted, failed); !ok {
			r.Violate("C07", "untaint-not-newest-first", "group %s: %s was untainted while the newer tainted node %s was left tainted", g.Cfg.Name, older, newer)
		}
		if g.IncreaseTried {
			for _, n := range g.View.TaintedN {
				if !untainted[n.Name] && !failed[n.Name] {
					r.Violate("C07", "cloud-increase-while-untaintable-node-left", "group %s: capacity requested while tainted node %s was neither untainted nor attempted", g.Cfg.Name, n.Name)
					break
				}
			}
		}
		sig := fmt.Sprintf("scaleup:untaints%s:cloud%v:tainted%s", bucket(int64(len(g.Untaints))-1), g.IncreaseTried, bucket(int64(T-len(g.Untaints))))
		if len(failed) > 0 {
			sig += ":failed-untaint"
		}
		if hasTies(g.View.TaintedN) {
			sig += ":ties"
		}
		if len(g.TermOK) > 0 {
			sig += ":after-removal-in-scan"
		}
		r.Covered("C07", sig)
		r.Sample("C07", fmt.Sprintf("case %s scan %d: untainted=%v cloud=%v tainted-in-view=%d", h.Case, sc.Rec.No, g.Untaints, g.IncreaseTried, T))
	}

	if !sc.UpExact || g.Locked {
		return
	}

	// --- exact remainder relative to the real desired capacity (C07) and sufficiency (C05)
	if need, ok := expectedUp(g); ok && upReached(g) {
		untaints := len(g.Untaints)
		// (a node the view shows tainted but that is in fact untainted already is in service as well: escalator
		// counts it, rightly, as untainted without writing anything)
		for _, n := range g.View.TaintedN {
			if o := g.NodeObs[n.Name]; o != nil && o.AlreadyUntainted && !o.GetErr && !o.PutErr && !set(g.Untaints)[n.Name] {
				untaints++
			}
		}
		failedUntaints := 0
		for _, n := range g.View.TaintedN {
			if g.FailedAttempt(n.Name) {
				failedUntaints++
			}
		}
		var reqReal, reqCache int64
		var atBound bool
		tried := false
		cur := g.DesiredBefore(nil)
		for _, e := range g.SetDesired {
			tried = true
			cur = g.DesiredBefore(e)
			reqReal = e.Desired - cur
			reqCache = e.Desired - g.Cache.Desired
			atBound = e.Desired >= g.Bound()
		}
		for _, e := range g.Fleets {
			if e.Fleet != nil {
				tried = true
				cur = g.DesiredBefore(e)
				reqReal, reqCache = e.Fleet.Total, e.Fleet.Total
				atBound = cur+e.Fleet.Total >= g.Bound()
			}
		}
		noHead := g.Cache != nil && cur >= g.Bound()
		broughtCache := untaints + int(reqReal)
		broughtReal := untaints + int(reqReal)
		_ = reqCache
		clamped := atBound || (noHead && !tried)

		if p.Stage == oracle.StDecide {
			// C05: sufficient, and at most one above the minimum
			sig := fmt.Sprintf("up:need%s:T%s", bucketN(need.lo), bucket(int64(T-need.lo)))
			if p.FromZero {
				sig += ":from-zero"
				if h.States[g.GI].CachedCPU == nil {
					sig += ":no-cached-size"
				}
			}
			if clamped {
				sig += ":clamped"
			}
			r.Covered("C05", sig)
			r.Sample("C05", fmt.Sprintf("case %s scan %d: U=%d T=%d cpuReq=%v cpuCap=%v threshold=%d need>=%d: untainted %d + requested %d", h.Case, sc.Rec.No, U, T, p.CPUReq, p.CPUCap, g.Cfg.ScaleUp, need.lo, untaints, reqReal))
			floatRes := false
			if cs, ms, eq := oracle.EqualSize(g.View.Untainted); eq && broughtCache >= 1 {
				floatRes = oracle.WithinFloatResolution(p.CPUReq, p.MemReq, cs, ms, g.Cfg.ScaleUp, U+broughtCache)
			}
			if !clamped && broughtCache < need.lo && floatRes {
				r.DC("C05", "insufficient by less than 1e-12 relative (float64 resolution)")
			} else if !clamped && broughtCache < need.lo {
				r.Violate("C05", "scale-up-insufficient", "group %s: %d nodes brought into service (untainted %d + requested %d) but %d are needed to sit at or below %d%% (cpu %v/%v mem %v/%v, U=%d)",
					g.Cfg.Name, broughtCache, untaints, reqReal, need.lo, g.Cfg.ScaleUp, p.CPUReq, p.CPUCap, p.MemReq, p.MemCap, U)
			}
			if broughtCache > need.hi {
				r.Violate("C05", "scale-up-excess", "group %s: %d nodes brought into service (untainted %d + requested %d), more than one above the %d needed (cpu %v/%v mem %v/%v, U=%d)",
					g.Cfg.Name, broughtCache, untaints, reqReal, need.lo, p.CPUReq, p.CPUCap, p.MemReq, p.MemCap, U)
			}
		}
		// C07: first untaint up to N, then exactly the remainder on top of the current desired size
		wantUntaints := minI(need.lo, T-failedUntaints)
		if untaints < wantUntaints {
			r.Violate("C07", "too-few-untaints", "group %s: needed >=%d nodes with %d tainted available but untainted only %d", g.Cfg.Name, need.lo, T, untaints)
		}
		if untaints > need.hi {
			r.Violate("C07", "too-many-untaints", "group %s: needed <=%d nodes but untainted %d", g.Cfg.Name, need.hi, untaints)
		}
		if tried && !atBound && broughtReal > need.hi {
			k := len(g.TermOK)
			key := "cloud-request-exceeds-remainder"
			if k > 0 && untaints+int(reqCache) <= need.hi {
				key = "cloud-request-ignores-same-scan-terminations"
			}
			r.Violate("C07", key, "group %s: requested +%d on top of the real desired capacity (+%d relative to the cached one) after untainting %d: brings %d nodes, at most %d needed (%d instances were terminated earlier in this scan)",
				g.Cfg.Name, reqReal, reqCache, untaints, broughtReal, need.hi, k)
		}
		if !clamped && broughtReal < need.lo && untaints+failedUntaints >= minI(need.lo, T) {
			r.Violate("C07", "cloud-request-below-remainder", "group %s: %d nodes needed, %d really untainted, yet only +%d requested on top of the real desired capacity (head-room to the bound: %d)",
				g.Cfg.Name, need.lo, untaints, reqReal, g.Bound()-cur)
		}
		if tried && untaints+failedUntaints < T {
			r.Violate("C07", "cloud-before-pool-exhausted", "group %s: capacity requested with %d of %d tainted nodes still tainted", g.Cfg.Name, T-untaints, T)
		}
	}

	// --- C06: direction and rate
	if p.Stage != oracle.StDecide || !sc.Exact {
		return
	}
	if _, notInGroup := sc.Rec.Err.(*cloudprovider.NodeNotInNodeGroup); notInGroup {
		// the documented fatal condition ended this group's processing (possibly before it tainted anything)
		r.DC("C06", "scan ended by the not-in-group condition")
		return
	}
	const P = "C06"
	if p.BandDontCare != "" {
		r.DC(P, p.BandDontCare)
		return
	}
	adds, unt := len(g.TaintAdds), len(g.Untaints)
	up := g.IncreaseTried || unt > 0
	edge := "far"
	if p.U != nil {
		edge = edgeBucket(p.U, g.Cfg)
	}
	sig := fmt.Sprintf("band=%s:edge=%s:starve=%d:age=%d", p.Band, edge, p.Starve, p.Age)
	if T > 0 {
		sig += ":tainted"
	}
	if p.Band == "fast" || p.Band == "slow" {
		sig += fmt.Sprintf(":clamp%s", bucket(int64(U-g.Cfg.Min-rateOf(g.Cfg, p.Band))))
	}
	if p.MemReq != nil && p.MemReq.Cmp(big.NewInt(92233720368547)) > 0 {
		sig += ":requests-beyond-2^63/10^5-bytes"
	}
	r.Covered(P, sig)
	r.Sample(P, fmt.Sprintf("case %s scan %d: u=%s band=%s U=%d T=%d min=%d taints=%d untaints=%d cloud=%v", h.Case, sc.Rec.No, ratStr(p.U), p.Band, U, T, g.Cfg.Min, adds, unt, g.IncreaseTried))

	exc := oracle.MustNot
	if p.Starve == oracle.Must || p.Age == oracle.Must {
		exc = oracle.Must
	} else if p.Starve == oracle.DontCare || p.Age == oracle.DontCare {
		exc = oracle.DontCare
	}
	bandOutcome := func() string {
		switch p.Band {
		case "fast", "slow":
			if adds != p.Taints {
				return fmt.Sprintf("taints=%d expected exactly %d (u=%s in the %s band, untainted=%d, min=%d)", adds, p.Taints, ratStr(p.U), p.Band, U, g.Cfg.Min)
			}
			if up {
				return fmt.Sprintf("capacity added (untaints=%d cloud=%v) in the %s band", unt, g.IncreaseTried, p.Band)
			}
		case "hold", "zero-idle":
			if adds != 0 || up {
				return fmt.Sprintf("taints=%d untaints=%d cloud=%v where nothing should change (u=%s)", adds, unt, g.IncreaseTried, ratStr(p.U))
			}
		case "up":
			if adds != 0 {
				return fmt.Sprintf("tainted %d nodes while above the scale-up threshold", adds)
			}
			if !up && (T > 0 || (g.Cache != nil && g.DesiredBefore(nil) < g.Bound())) {
				return fmt.Sprintf("no capacity added above the scale-up threshold (u=%s, tainted=%d, head-room=%d)", ratStr(p.U), T, g.Bound()-g.DesiredBefore(nil))
			}
		}
		return ""
	}
	exceptionOutcome := func() string {
		if adds != 0 {
			return fmt.Sprintf("exception trigger must not taint, saw %d taints", adds)
		}
		if !up && (T > 0 || (g.Cache != nil && g.DesiredBefore(nil) < g.Bound())) {
			return "exception trigger must scale up by at least one node, nothing happened"
		}
		return ""
	}
	var msg string
	switch exc {
	case oracle.MustNot:
		msg = bandOutcome()
	case oracle.Must:
		if p.Band == "up" {
			msg = bandOutcome()
		} else {
			msg = exceptionOutcome()
		}
	default:
		a, b := bandOutcome(), exceptionOutcome()
		if a != "" && b != "" {
			msg = a + " / " + b
		}
		r.DC(P, "scale_on_starve / max_node_age trigger not clear-cut")
	}
	if msg != "" {
		r.Violate(P, "band-"+p.Band+"-mismatch", "group %s: %s", g.Cfg.Name, msg)
	}
}

// upReached: the scan got as far as its scale-up (a not-in-group error from an earlier removal ends the
// group's processing before that; nothing can be said about the scale-up then).
func upReached(g *GroupCtx) bool {
	for _, e := range g.Events {
		if e.API == sim.AwsTermASG && !e.OK() && !e.Injected {
			return false
		}
	}
	return true
}

func rateOf(c *oracle.Cfg, band string) int {
	if band == "fast" {
		return c.Fast
	}
	return c.Slow
}

func bucketN(n int) string {
	switch {
	case n <= 1:
		return "1"
	case n <= 3:
		return "2-3"
	case n <= 10:
		return "4-10"
	default:
		return ">10"
	}
}

func hasTies(nodes []*v1.Node) bool {
	seen := map[int64]bool{}
	for _, n := range nodes {
		k := n.CreationTimestamp.Time.UnixNano()
		if seen[k] {
			return true
		}
		seen[k] = true
	}
	return false
}

func ratStr(u *big.Rat) string {
	if u == nil {
		return "n/a"
	}
	return u.FloatString(6)
}

// edgeBucket names the nearest threshold and on which side u lies, when u is within 1% of it.
func edgeBucket(u *big.Rat, c *oracle.Cfg) string {
	f, _ := u.Float64()
	for _, t := range []struct {
		name string
		v    int
	}{{"lower", c.Lower}, {"upper", c.Upper}, {"up", c.ScaleUp}} {
		d := f - float64(t.v)
		if math.Abs(d) <= float64(t.v)*0.01 {
			side := "=="
			if u.Cmp(new(big.Rat).SetInt64(int64(t.v))) < 0 {
				side = "-"
			} else if u.Cmp(new(big.Rat).SetInt64(int64(t.v))) > 0 {
				side = "+"
			}
			return t.name + side
		}
	}
	return "far"
}

// ---- C08 ---------------------------------------------------------------------------------------

func checkC08(h *History, sc *ScanCtx, g *GroupCtx, r *Report) {
	const P = "C08"
	if g.Dry || len(g.TaintAddTry) == 0 {
		return
	}
	tainted := set(g.TaintAdds)
	excused := map[string]bool{}
	for _, n := range g.View.Untainted {
		o := g.NodeObs[n.Name]
		if g.FailedAttempt(n.Name) || (o != nil && o.AlreadyTainted) {
			excused[n.Name] = true
		}
	}
	older, newer, ok := oracle.OldestFirstOK(g.View.Untainted, tainted, excused)
	sig := fmt.Sprintf("taint:n%s:of%s", bucketN(len(g.TaintAdds)), bucketN(len(g.View.Untainted)))
	if hasTies(g.View.Untainted) {
		sig += ":ties"
	}
	if len(excused) > 0 {
		sig += ":failed-attempt"
	}
	if listOrderDiffers(g.View.Untainted) {
		sig += ":list-not-sorted"
	}
	for _, n := range g.View.Untainted {
		if n.CreationTimestamp.IsZero() {
			sig += ":zero-ts"
			break
		}
	}
	for _, n := range g.View.Untainted {
		if n.DeletionTimestamp != nil {
			sig += ":node-being-deleted-among-candidates"
			break
		}
	}
	for _, n := range g.View.Untainted {
		if len(n.Status.Conditions) == 1 && n.Status.Conditions[0].Type == v1.NodeReady && n.Status.Conditions[0].Status != v1.ConditionTrue {
			sig += ":not-ready-node-among-candidates"
			break
		}
	}
	r.Covered(P, sig)
	r.Sample(P, fmt.Sprintf("case %s scan %d: tainted=%v of %d untainted (excused %v)", h.Case, sc.Rec.No, g.TaintAdds, len(g.View.Untainted), oracle.SortedNames(excused)))
	if !ok {
		r.Violate(P, "older-node-left-untainted", "group %s: %s was tainted while the strictly older node %s stayed untainted without a failed attempt", g.Cfg.Name, newer, older)
	}
}

func listOrderDiffers(nodes []*v1.Node) bool {
	return !sort.SliceIsSorted(nodes, func(i, j int) bool {
		return nodes[i].CreationTimestamp.Time.Before(nodes[j].CreationTimestamp.Time)
	})
}

// ---- C09 ---------------------------------------------------------------------------------------

func checkC09(h *History, sc *ScanCtx, g *GroupCtx, r *Report) {
	const P = "C09"
	if g.Dry || !g.Reached {
		return
	}
	if len(g.View.Cordon) > 0 {
		kinds := map[string]bool{}
		for _, n := range g.View.Cordon {
			k := "plain"
			switch {
			case hasKey(n, oracle.ForceTaint):
				k = "force-tainted"
			case hasKey(n, oracle.EscalatorTaint):
				if g.View.RemovalClauseIgnoringCordon(n, g.Now) != "" {
					k = "grace-expired"
				} else {
					k = "tainted"
				}
			}
			if oracle.Protected(n) {
				k += "+annotated"
			}
			kinds[k] = true
		}
		for k := range kinds {
			r.Covered(P, "cordoned:"+k+":stage="+string(g.Plan.Stage)+":band="+g.Plan.Band)
		}
	}
	for _, e := range g.Writes {
		var n *v1.Node
		switch e.API {
		case sim.K8sUpdate, sim.K8sDelete:
			n = g.View.Node(e.Target)
		case sim.AwsTermASG:
			n = g.ViewNodeByInstance(e.Target)
		}
		if n != nil && n.Spec.Unschedulable {
			r.Violate(P, "write-to-cordoned-node:"+e.API, "group %s: %s on cordoned node %s", g.Cfg.Name, e, n.Name)
		}
	}
	// capacity gauges exclude cordoned (and tainted) nodes
	if sc.Exact && len(sc.Rec.Gauges) > g.GI {
		gg := sc.Rec.Gauges[g.GI]
		if !math.IsNaN(gg.CPUCap) && !math.IsNaN(gg.MemCap) {
			cpu, _ := new(big.Float).SetInt(g.Plan.CPUCap).Float64()
			mem, _ := new(big.Float).SetInt(g.Plan.MemCap).Float64()
			if gg.CPUCap != cpu || gg.MemCap != mem {
				key := "capacity-gauge-mismatch"
				if len(g.View.Cordon) > 0 {
					key = "capacity-counts-cordoned"
				}
				r.Violate(P, key, "group %s: capacity gauges cpu=%v mem=%v, untainted uncordoned allocatable is cpu=%v mem=%v (%d cordoned nodes)", g.Cfg.Name, gg.CPUCap, gg.MemCap, cpu, mem, len(g.View.Cordon))
			} else if len(g.View.Cordon) > 0 {
				r.Covered(P, "capacity-excludes-cordoned")
			}
		}
	}
}

// ---- C10 ---------------------------------------------------------------------------------------

func checkC10(h *History, sc *ScanCtx, g *GroupCtx, r *Report) {
	const P = "C10"
	if g.Dry || !g.Reached {
		return
	}
	anno := 0
	for _, n := range g.View.Nodes {
		if oracle.Protected(n) {
			anno++
		}
	}
	for _, t := range removalTargets(sc, g) {
		if t.node != nil && oracle.Protected(t.node) && !hasKey(t.node, oracle.ForceTaint) {
			r.Violate(P, "protected-node-removed", "group %s: %s on node %s carrying %s=%q", g.Cfg.Name, t.ev.API, t.node.Name, oracle.NoDeleteAnno, t.node.Annotations[oracle.NoDeleteAnno])
		}
	}
	if anno > 0 {
		for _, n := range g.View.TaintedN {
			if !oracle.Protected(n) {
				continue
			}
			st := "young"
			if sec, ok, in := oracle.TaintTime(n); ok && in {
				if oracle.ElapsedMoreThan(g.Now, sec, g.Cfg.Hard) {
					st = "past-hard"
				} else if oracle.ElapsedMoreThan(g.Now, sec, g.Cfg.Soft) {
					st = "past-soft"
				}
			}
			if g.View.Empty(n.Name) {
				st += ":empty"
			}
			if strings.TrimSpace(n.Annotations[sim.NoDeleteAnno]) == "" {
				st += ":whitespace-value"
			}
			r.Covered(P, "protected-tainted:"+st)
		}
		for _, n := range g.TaintAdds {
			if vn := g.View.Node(n); vn != nil && oracle.Protected(vn) {
				r.Covered(P, "protected-node-tainted")
			}
		}
		for _, n := range g.Untaints {
			if vn := g.View.Node(n); vn != nil && oracle.Protected(vn) {
				r.Covered(P, "protected-node-untainted")
			}
		}
		for _, n := range g.View.Force {
			if oracle.Protected(n) {
				r.Covered(P, "protected+force")
			}
		}
	}
	for _, n := range g.View.Nodes {
		if v, ok := n.Annotations[oracle.NoDeleteAnno]; ok && v == "" {
			r.Covered(P, "empty-annotation-value")
		}
	}
	// positive side: in an exact, unlocked scan whose decision runs the reaper, exactly the eligible
	// unprotected nodes are terminated and deleted, unless the cloud refuses the batch.
	if !sc.Exact || g.Plan.Stage != oracle.StDecide || g.Plan.BandDontCare != "" || g.Cache == nil {
		return
	}
	if !g.Plan.ReaperRuns {
		return
	}
	if g.Plan.Starve != oracle.MustNot || g.Plan.Age != oracle.MustNot {
		return // an exception may have turned the decision into a scale-up, which does not reap
	}
	want := append([]string(nil), g.Plan.ForceReap...)
	cacheDesired := g.Cache.Desired
	forceAccepted := len(g.Plan.ForceReap) == 0 || (cacheDesired > g.Cache.Min && cacheDesired-int64(len(g.Plan.ForceReap)) >= g.Cache.Min)
	if !forceAccepted {
		want = nil
	}
	// the second batch is judged against the real cloud state as well: a refusal by the cloud itself is legitimate
	realDesired := sc.Rec.CloudBefore[g.Cfg.ASG].Desired
	if forceAccepted {
		realDesired -= int64(len(g.Plan.ForceReap))
	}
	realMin := sc.Rec.CloudBefore[g.Cfg.ASG].Min
	reapAcceptedByCache := len(g.Plan.Reap) == 0 || (cacheDesired > g.Cache.Min && cacheDesired-int64(len(g.Plan.Reap)) >= g.Cache.Min)
	reapAcceptedByCloud := realDesired-int64(len(g.Plan.Reap)) >= realMin
	members := true
	for _, name := range append(append([]string(nil), g.Plan.ForceReap...), g.Plan.Reap...) {
		if n := g.View.Node(name); n == nil || !g.Cache.Has(n.Spec.ProviderID) {
			members = false
		}
	}
	if !members {
		r.DC(P, "batch contains a node the cloud group does not list")
		return
	}
	if reapAcceptedByCache != reapAcceptedByCloud {
		r.DC(P, "cached and real desired capacity disagree on whether the batch fits above the cloud minimum")
		return
	}
	if reapAcceptedByCache {
		want = append(want, g.Plan.Reap...)
	}
	got := make([]string, 0, len(g.TermOK))
	for _, id := range g.TermOK {
		if n := g.ViewNodeByInstance(id); n != nil {
			got = append(got, n.Name)
		} else {
			got = append(got, id)
		}
	}
	if len(g.Plan.Reap) > 0 {
		sig := fmt.Sprintf("reaper:eligible%s:protected%d:accepted=%v", bucketN(len(g.Plan.Reap)), minI(anno, 2), reapAcceptedByCache)
		r.Covered(P, sig)
	}
	if !sameSet(got, want) {
		key := "reaper-set-mismatch"
		if anno > 0 {
			key = "reaper-set-mismatch-with-protected-node-present"
		}
		r.Violate(P, key, "group %s: terminated %v, eligible and unprotected were %v (force %v; protected nodes present: %d)", g.Cfg.Name, sortedCopy(got), sortedCopy(want), g.Plan.ForceReap, anno)
	} else if !sameSet(g.Deleted, want) {
		r.Violate(P, "deleted-set-mismatch", "group %s: deleted Node objects %v, terminated %v", g.Cfg.Name, sortedCopy(g.Deleted), sortedCopy(want))
	}
	if len(want) > 0 {
		r.Sample(P, fmt.Sprintf("case %s scan %d: reaped %v; protected nodes in view: %d", h.Case, sc.Rec.No, sortedCopy(got), anno))
	}
}

// ---- C11 ---------------------------------------------------------------------------------------

func checkC11(h *History, sc *ScanCtx, g *GroupCtx, r *Report) {
	const P = "C11"
	if !g.Dry || !g.Reached {
		return
	}
	which := "group-option"
	if h.Env.GlobalDry {
		which = "global-flag"
	}
	for _, e := range g.Writes {
		r.Violate(P, "write-in-dry-mode:"+e.API, "dry group %s (%s): %s", g.Cfg.Name, which, e)
	}
	// coverage: which decision sites were reached while dry (from the dry-mode log lines; never used for the verdict)
	for _, l := range sc.Rec.Logs {
		if !strings.Contains(l, "nodegroup="+g.Cfg.Name) && !strings.Contains(l, "drymode=on") {
			continue
		}
		switch {
		case strings.Contains(l, "increasing cloud provider node group by") && strings.Contains(l, "drymode=true"):
			r.Covered(P, which+":site=cloud-increase")
		case strings.Contains(l, "ready to be force deleted") && !strings.Contains(l, "not ready") && strings.Contains(l, "drymode=true"):
			r.Covered(P, which+":site=force-delete")
		case strings.Contains(l, "ready to be deleted") && strings.Contains(l, "drymode=true"):
			r.Covered(P, which+":site=reap")
		case strings.HasPrefix(l, "info Tainting node") && strings.Contains(l, "drymode=on"):
			r.Covered(P, which+":site=taint")
		case strings.HasPrefix(l, "info Untainting node") && strings.Contains(l, "drymode=on"):
			r.Covered(P, which+":site=untaint")
		}
	}
	r.Covered(P, which+":stage="+string(g.Plan.Stage))
	// the same, independent of log texts: what the (real-taint) view says the dry group is facing
	room := "noroom"
	if len(g.View.Untainted) > g.Cfg.Min {
		room = "room"
	}
	r.Covered(P, fmt.Sprintf("%s:facing=%s:%s:%s:tainted%d:force%d", which, g.Plan.Stage, g.Plan.Band, room, minI(len(g.View.TaintedN), 1), minI(len(g.View.Force), 1)))
}

// ---- C12 (direct attribution) ----------------------------------------------------------------------

func checkC12(h *History, sc *ScanCtx, g *GroupCtx, r *Report) {
	const P = "C12"
	if !g.Reached || len(h.Env.Groups) < 2 {
		return
	}
	for _, e := range g.Events {
		switch e.API {
		case sim.K8sGet, sim.K8sUpdate, sim.K8sDelete:
			n := AnyViewNode(sc.Rec, e.Target)
			if n == nil && e.Before != nil {
				n = e.Before
			}
			if n != nil && !oracle.NodeInGroup(g.Cfg, n) {
				r.Violate(P, "foreign-node-touched:"+e.API, "while processing group %s: %s targets a node labelled %v", g.Cfg.Name, e, n.Labels)
			}
			if e.IsWrite() {
				r.Inc(P, "attributed-writes")
			}
		case sim.AwsSetDes, sim.AwsAttach:
			r.Inc(P, "attributed-writes")
			if e.Target != g.Cfg.ASG {
				r.Violate(P, "foreign-cloud-group:"+e.API, "while processing group %s (cloud group %s): %s", g.Cfg.Name, g.Cfg.ASG, e)
			}
		case sim.AwsTermASG:
			r.Inc(P, "attributed-writes")
			if len(e.ASGs) == 1 && e.ASGs[0] != g.Cfg.ASG {
				r.Violate(P, "foreign-cloud-group:"+e.API, "while processing group %s (cloud group %s): %s terminates an instance of %s", g.Cfg.Name, g.Cfg.ASG, e, e.ASGs[0])
			}
		}
	}
}

// checkC12Abort: a failure while one group is processed must not end the scan for the groups after it.
func checkC12Abort(h *History, sc *ScanCtx, r *Report) {
	const P = "C12"
	rec := sc.Rec
	if len(sc.Groups) < 2 || rec.Crashed || rec.Panic == nil {
		return
	}
	reached, last := 0, -1
	for _, g := range sc.Groups {
		if g.Reached {
			reached++
			last = g.GI
		}
	}
	if reached == len(sc.Groups) && last == len(sc.Groups)-1 {
		// the abort happened in the last group: nothing after it to be stopped
		r.Covered(P, "abort-in-last-group")
		return
	}
	key := "panic:" + panicClass(rec)
	if rec.Fatal {
		key = "fatal-exit:" + panicClass(rec)
		if strings.Contains(key, "terminateOrphanedInstances") {
			streak := 0
			for _, g := range sc.Groups {
				if len(g.Fleets) > 0 && g.FleetFailStreak > streak {
					streak = g.FleetFailStreak
				}
			}
			key += fmt.Sprintf(":consecutive-failures-of-the-group=%d", streak)
		}
	}
	r.Violate(P, "scan-aborted:"+key, "scan %d ended while group %d of %d was processed (%v): the groups after it were not looked at", rec.No, last+1, len(sc.Groups), rec.Panic)
}

// ---- C13 (gauges) -------------------------------------------------------------------------------------

func checkC13(h *History, sc *ScanCtx, g *GroupCtx, r *Report) {
	const P = "C13"
	if g.Dry || !sc.Exact || len(sc.Rec.Gauges) <= g.GI {
		return
	}
	gg := sc.Rec.Gauges[g.GI]
	if math.IsNaN(gg.CPUReq) || math.IsNaN(gg.MemReq) {
		return
	}
	f := func(b *big.Int) float64 { v, _ := new(big.Float).SetInt(b).Float64(); return v }
	if gg.CPUReq != f(g.Plan.CPUReq) || gg.MemReq != f(g.Plan.MemReq) {
		r.Violate(P, "request-gauge-mismatch", "group %s: request gauges cpu=%v mem=%v, exact totals cpu=%v mem=%v over %d pods", g.Cfg.Name, gg.CPUReq, gg.MemReq, g.Plan.CPUReq, g.Plan.MemReq, len(g.View.Pods))
	}
	if !math.IsNaN(gg.CPUCap) && (gg.CPUCap != f(g.Plan.CPUCap) || gg.MemCap != f(g.Plan.MemCap)) {
		r.Violate(P, "capacity-gauge-mismatch", "group %s: capacity gauges cpu=%v mem=%v, exact cpu=%v mem=%v", g.Cfg.Name, gg.CPUCap, gg.MemCap, g.Plan.CPUCap, g.Plan.MemCap)
	}
	if !math.IsNaN(gg.CPUPct) && g.Plan.CPUCap.Sign() > 0 && g.Plan.MemCap.Sign() > 0 {
		wc, _ := oracle.Percent(g.Plan.CPUReq, g.Plan.CPUCap).Float64()
		wm, _ := oracle.Percent(g.Plan.MemReq, g.Plan.MemCap).Float64()
		if relDiff(gg.CPUPct, wc) > 1e-9 || relDiff(gg.MemPct, wm) > 1e-9 {
			r.Violate(P, "percent-gauge-mismatch", "group %s: percent gauges cpu=%v mem=%v, exact cpu=%v mem=%v", g.Cfg.Name, gg.CPUPct, gg.MemPct, wc, wm)
		}
		sig := fmt.Sprintf("gauges:pods%s:nodes%s", bucketN(len(g.View.Pods)), bucketN(len(g.View.Untainted)))
		for _, p := range g.View.Pods {
			if p.DeletionTimestamp != nil {
				sig += ":terminating-pods"
				break
			}
		}
		r.Covered(P, sig)
	}
}

func relDiff(a, b float64) float64 {
	d := math.Abs(a - b)
	m := math.Max(math.Abs(a), math.Abs(b))
	if m == 0 {
		return 0
	}
	return d / m
}

// ---- C15 ---------------------------------------------------------------------------------------

func normalizeForDiff(n *v1.Node) *v1.Node {
	c := n.DeepCopy()
	c.Spec.Taints = nil
	c.ResourceVersion = ""
	return c
}

func taintMultiset(ts []v1.Taint, skipKey string) []string {
	var out []string
	for _, t := range ts {
		if t.Key == skipKey {
			continue
		}
		ta := ""
		if t.TimeAdded != nil {
			ta = t.TimeAdded.String()
		}
		out = append(out, fmt.Sprintf("%s|%s|%s|%s", t.Key, t.Value, t.Effect, ta))
	}
	sort.Strings(out)
	return out
}

func escTaints(n *v1.Node) []v1.Taint {
	var out []v1.Taint
	for _, t := range n.Spec.Taints {
		if t.Key == oracle.EscalatorTaint {
			out = append(out, t)
		}
	}
	return out
}

func checkC15(h *History, sc *ScanCtx, g *GroupCtx, r *Report) {
	const P = "C15"
	if !g.Reached {
		return
	}
	for _, e := range g.Events {
		if e.API != sim.K8sUpdate || e.Sent == nil {
			continue
		}
		r.Inc(P, "node-updates")
		if e.Before == nil {
			r.Covered(P, "update-of-missing-node")
			continue
		}
		if !e.Applied {
			// refused by the API server (a genuine resourceVersion conflict or an injected failure): nothing was
			// written, so nothing can have been lost
			if strings.Contains(e.Err, "modified") && !e.Injected {
				r.Covered(P, "update-rejected-by-genuine-conflict")
			}
			continue
		}
		a, b := normalizeForDiff(e.Before), normalizeForDiff(e.Sent)
		ab, _ := a.Marshal()
		bb, _ := b.Marshal()
		if string(ab) != string(bb) {
			r.Violate(P, "update-changes-other-fields", "group %s: PUT node %s changes fields other than taints", g.Cfg.Name, e.Target)
			continue
		}
		fa, fb := taintMultiset(e.Before.Spec.Taints, oracle.EscalatorTaint), taintMultiset(e.Sent.Spec.Taints, oracle.EscalatorTaint)
		if strings.Join(fa, ";") != strings.Join(fb, ";") {
			r.Violate(P, "update-changes-foreign-taints", "group %s: PUT node %s: foreign taints before %v, sent %v", g.Cfg.Name, e.Target, fa, fb)
			continue
		}
		eb, es := escTaints(e.Before), escTaints(e.Sent)
		if e.Sent.ResourceVersion != e.Before.ResourceVersion {
			r.Covered(P, "update-from-stale-object")
		}
		if sc.Rec.MidScan {
			r.Covered(P, "update-after-mid-scan-change")
		}
		switch {
		case len(eb) == 0 && len(es) == 1:
			t := es[0]
			wantEffect := g.Cfg.Effect
			if wantEffect == "" {
				wantEffect = v1.TaintEffectNoSchedule
			}
			wantVal := fmt.Sprint(e.VTime / 1e9)
			if t.Effect != wantEffect {
				r.Violate(P, "taint-wrong-effect", "group %s: node %s tainted with effect %q, configured %q", g.Cfg.Name, e.Target, t.Effect, wantEffect)
			}
			if t.Value != wantVal {
				r.Violate(P, "taint-wrong-value", "group %s: node %s tainted with value %q at unix time %s", g.Cfg.Name, e.Target, t.Value, wantVal)
			}
			if t.TimeAdded != nil {
				r.Covered(P, "taint-with-timeadded")
			}
			r.Covered(P, fmt.Sprintf("add:effect=%s:foreign%d:stale=%v", wantEffect, minI(len(fa), 3), sc.Rec.Stale))
		case len(eb) >= 1 && len(es) == len(eb)-1:
			r.Covered(P, fmt.Sprintf("remove:foreign%d:pos=%s:stale=%v", minI(len(fa), 3), escPos(e.Before), sc.Rec.Stale))
		case len(eb) == len(es) && len(eb) > 0:
			same := true
			for i := range eb {
				if eb[i] != es[i] && !(eb[i].Key == es[i].Key && eb[i].Value == es[i].Value && eb[i].Effect == es[i].Effect) {
					same = false
				}
			}
			if !same {
				r.Violate(P, "taint-restamped", "group %s: PUT node %s rewrites the existing escalator taint %v -> %v (grace period restarted)", g.Cfg.Name, e.Target, eb, es)
			} else {
				r.Violate(P, "no-op-update", "group %s: PUT node %s changes nothing", g.Cfg.Name, e.Target)
			}
		default:
			r.Violate(P, "taint-count-change", "group %s: PUT node %s: escalator taints before %v, sent %v", g.Cfg.Name, e.Target, eb, es)
		}
		r.Sample(P, fmt.Sprintf("case %s scan %d: PUT %s before=%s sent=%s", h.Case, sc.Rec.No, e.Target, sim.TaintsString(e.Before.Spec.Taints), sim.TaintsString(e.Sent.Spec.Taints)))
	}
	// a view node already carrying the taint (really, in the store) and chosen again must not be re-stamped:
	// covered by the "taint-restamped" case above; count the opportunities
	for name, o := range g.NodeObs {
		if o.AlreadyTainted && sc.Rec.Stale {
			if vn := g.View.Node(name); vn != nil && !hasKey(vn, oracle.EscalatorTaint) {
				r.Covered(P, "stale-view:already-tainted-node-chosen-again")
			}
		}
	}
}

func escPos(n *v1.Node) string {
	for i, t := range n.Spec.Taints {
		if t.Key == oracle.EscalatorTaint {
			switch {
			case len(n.Spec.Taints) == 1:
				return "only"
			case i == 0:
				return "first"
			case i == len(n.Spec.Taints)-1:
				return "last"
			default:
				return "middle"
			}
		}
	}
	return "none"
}

func checkC15Scan(h *History, sc *ScanCtx, r *Report) {
	if len(sc.Rec.Mutated) > 0 {
		r.Violate("C15", "cache-object-mutated", "the scan modified lister-owned objects in place: %v", sc.Rec.Mutated)
	}
}

// ---- C19 (ordering along histories) -------------------------------------------------------------------

func checkC19(h *History, sc *ScanCtx, g *GroupCtx, r *Report) {
	const P = "C19"
	if g.Dry || !g.Reached {
		return
	}
	// batches: a run of terminate calls followed by the deletes that belong to it
	var batch []*sim.Event
	inDeletes := false
	for _, e := range g.Events {
		switch e.API {
		case sim.AwsTermASG:
			// a request to the provider ends at its first failing call; the next terminate call opens a new batch
			if inDeletes || (len(batch) > 0 && !batch[len(batch)-1].OK()) {
				batch = nil
				inDeletes = false
			}
			batch = append(batch, e)
			if e.Decrement == nil || !*e.Decrement {
				r.Violate(P, "terminate-without-decrement", "group %s: %s", g.Cfg.Name, e)
			}
			n := g.ViewNodeByInstance(e.Target)
			if n == nil {
				r.Violate(P, "terminate-unknown-instance", "group %s: %s does not back any node of the group view", g.Cfg.Name, e)
			}
		case sim.K8sDelete:
			inDeletes = true
			r.Inc(P, "node-deletes")
			n := g.View.Node(e.Target)
			okBatch := len(batch) > 0
			found := false
			for _, t := range batch {
				if !t.OK() {
					okBatch = false
				}
				if n != nil && t.Target == instanceOf(n.Spec.ProviderID) {
					found = true
				}
			}
			if !okBatch || !found {
				why := "its instance was not in the preceding terminate batch"
				key := "delete-without-cloud-termination"
				if len(batch) > 0 && !okBatch {
					why = "a terminate call of the batch failed"
					key = "delete-after-failed-cloud-batch"
				}
				r.Violate(P, key, "group %s: DELETE node %s although %s", g.Cfg.Name, e.Target, why)
			} else {
				r.Covered(P, fmt.Sprintf("delete-after-accepted-batch:size%s", bucketN(len(batch))))
			}
		}
	}
	lostReply := false
	for _, e := range g.Events {
		if e.Injected && e.Applied {
			lostReply = true
		}
	}
	// a terminate call that the cloud itself refuses because it would take the group below its minimum means the
	// request as a whole breached the minimum and should have been refused before any call was made
	// (not when this scan's refresh left the group out of its answer: escalator then works from a description that is
	// a scan old and cannot know that the cloud group's minimum was raised in between)
	staleDescription := false
	for _, e := range sc.Rec.Events {
		if e.API == sim.AwsDescASG && e.Note == "answer leaves out "+g.Cfg.ASG {
			staleDescription = true
		}
	}
	if staleDescription {
		r.DC(P, "refresh left the group out of its answer: cloud-side refusals are not judged")
	}
	if !lostReply && !staleDescription {
		for _, e := range g.Events {
			if e.API == sim.AwsTermASG && !e.OK() && !e.Injected && strings.Contains(e.Err, "min size") {
				r.Violate(P, "request-breaching-minimum-not-refused", "group %s: %s - the removal request was not refused although it takes the group below its minimum (desired %d, min %d at the call)", g.Cfg.Name, e, e.CloudDesired, e.CloudMin)
				break
			}
		}
	}
	// a batch that reaches a node which is not a member of the cloud group must end the scan with the not-in-group error
	if sc.Exact && g.Plan.Stage == oracle.StDecide && g.Plan.BandDontCare == "" && g.Cache != nil && !g.Locked {
		outsider := ""
		check := func(batch []string, desired int64) (int64, bool) {
			if len(batch) == 0 {
				return desired, false
			}
			if !(desired > g.Cache.Min && desired-int64(len(batch)) >= g.Cache.Min) {
				return desired, false // refused as a whole
			}
			for _, name := range batch {
				n := g.View.Node(name)
				if n == nil || !g.Cache.Has(n.Spec.ProviderID) {
					outsider = name
					return desired, true
				}
				desired--
			}
			return desired, false
		}
		// (the force-removal batch is not judged: escalator logs its not-in-group error and carries on, and the
		// statement's mechanism names the grace-period reaper only - counted as a don't-care)
		stop := false
		reaperCertain := g.Plan.ReaperRuns && g.Plan.Starve == oracle.MustNot && g.Plan.Age == oracle.MustNot
		if len(g.Plan.ForceReap) > 0 {
			if _, hit := check(g.Plan.ForceReap, g.Cache.Desired); hit {
				r.DC(P, "force-removal batch reaches a node outside the cloud group (error is logged, not fatal)")
			}
			outsider = ""
		} else if reaperCertain {
			_, stop = check(g.Plan.Reap, g.Cache.Desired)
		}
		if stop {
			r.Covered(P, "outsider-in-batch")
			if _, ok := sc.Rec.Err.(*cloudprovider.NodeNotInNodeGroup); !ok {
				r.Violate(P, "not-in-group-not-fatal", "group %s: node %s is not a member of cloud group %s and was reached by a removal batch, but the scan returned %v instead of the not-in-group error that stops escalator", g.Cfg.Name, outsider, g.Cfg.ASG, sc.Rec.Err)
			}
		}
	}
	if sc.Exact && g.Plan.Stage == oracle.StDecide && g.Plan.BandDontCare == "" && g.Cache != nil && !g.Locked {
		desired := g.Cache.Desired
		judge := func(batch []string, what string) {
			if len(batch) == 0 || !allMembers(g, batch) {
				return
			}
			accepted := desired > g.Cache.Min && desired-int64(len(batch)) >= g.Cache.Min
			if accepted {
				desired -= int64(len(batch))
				if len(batch) > 25 {
					r.Covered(P, "large-batch-accepted:"+what)
				}
				return
			}
			r.Covered(P, fmt.Sprintf("batch-refused-as-a-whole:%s:size%s", what, bucketN(len(batch))))
			in := set(batch)
			for _, id := range g.TermTry {
				if n := g.ViewNodeByInstance(id); n != nil && in[n.Name] {
					r.Violate(P, "batch-breaching-minimum-partly-executed", "group %s: the %s batch of %d nodes would take desired %d below the minimum %d and has to be refused as a whole, yet %s was submitted for termination",
						g.Cfg.Name, what, len(batch), desired, g.Cache.Min, n.Name)
					return
				}
			}
		}
		judge(g.Plan.ForceReap, "force")
		if g.Plan.ReaperRuns && g.Plan.Starve == oracle.MustNot && g.Plan.Age == oracle.MustNot {
			judge(g.Plan.Reap, "reaper")
		}
	}
	if len(g.TermTry) > 0 {
		failed := len(g.TermTry) - len(g.TermOK)
		sig := fmt.Sprintf("batch:%s:failed%d:deleted%v", bucketN(len(g.TermTry)), minI(failed, 2), len(g.Deleted) > 0)
		r.Covered(P, sig)
		// never more terminate calls than desired - min of the cloud group at scan start
		cb := sc.Rec.CloudBefore[g.Cfg.ASG]
		if int64(len(g.TermOK)) > cb.Desired-cb.Min {
			r.Violate(P, "terminated-below-cloud-minimum", "group %s: %d instances terminated with desired=%d min=%d", g.Cfg.Name, len(g.TermOK), cb.Desired, cb.Min)
		}
		if int64(len(g.TermTry)) > cb.Desired-cb.Min && sc.Exact {
			r.Violate(P, "terminate-calls-exceed-cloud-headroom", "group %s: %d terminate calls issued with desired=%d min=%d at the start of the scan", g.Cfg.Name, len(g.TermTry), cb.Desired, cb.Min)
		}
	}
}

// ---- C20 ---------------------------------------------------------------------------------------

func checkC20(h *History, sc *ScanCtx, r *Report) {
	const P = "C20"
	rec := sc.Rec
	r.Inc(P, "scans")
	if rec.FaultHits > 0 {
		r.Inc(P, "faulted-scans")
	}
	if rec.Panic != nil {
		key := "panic:" + panicClass(rec)
		if rec.Fatal {
			key = "fatal-exit:" + panicClass(rec)
			if strings.Contains(key, "terminateOrphanedInstances") {
				// the documented escape hatch fires on the third consecutive failed fleet scale-up of one group
				streak := 0
				for _, g := range sc.Groups {
					if len(g.Fleets) > 0 && g.FleetFailStreak > streak {
						streak = g.FleetFailStreak
					}
				}
				key += fmt.Sprintf(":consecutive-failures-of-the-group=%d", streak)
			}
		}
		r.Violate(P, key, "scan %d: %v\n%s", rec.No, rec.Panic, rec.Stack)
	}
	if rec.Err != nil {
		if _, ok := rec.Err.(*cloudprovider.NodeNotInNodeGroup); ok {
			r.Covered(P, "runonce-error:not-in-group")
		} else {
			cls := "other"
			if strings.Contains(rec.Err.Error(), "injected") {
				cls = "cloud-describe-failed-twice"
			} else if strings.Contains(rec.Err.Error(), "could not find node group") {
				cls = "node-group-missing"
			}
			r.Violate(P, "runonce-error:"+cls, "scan %d: RunOnce returned %q, which stops the controller, after %d injected faults", rec.No, rec.Err.Error(), rec.FaultHits)
		}
	}
	for _, e := range rec.Events {
		if e.API == sim.K8sOther || e.API == sim.AwsOther {
			// not a violation of anything: the statements do not forbid other calls. But the simulated services
			// answered "not supported", so this history misrepresents the world from here on: inconclusive.
			r.NoteUnmodelled(fmt.Sprintf("%s %s %s", e.API, e.Verb, e.Note))
			r.Inc(P, "unmodelled-calls")
		}
	}
	if sc.PostFault {
		r.Covered(P, "exact-scan-after-fault")
	}
	if rec.FaultHits > 0 {
		kinds := map[string]bool{}
		for _, e := range rec.Events {
			if e.Injected {
				kinds[e.API+":"+errClass(e)] = true
			}
			if e.API == sim.AwsDescASG && strings.HasPrefix(e.Note, "answer leaves out") {
				kinds[e.API+":registered-group-left-out-of-the-answer"] = true
			}
		}
		for k := range kinds {
			r.Covered(P, "fault:"+k)
		}
		if rec.FaultHits > 1 {
			r.Covered(P, "multi-fault-scan")
		}
	}
	if rec.Crashed {
		r.Covered(P, "crash-inside-scan")
	}
}

// errClass names the kind of injected failure from what the caller saw.
func errClass(e *sim.Event) string {
	switch {
	case e.Applied:
		return "lost-reply"
	case strings.Contains(e.Err, "not found"):
		return "notfound"
	case strings.Contains(e.Err, "modified"):
		return "conflict"
	case strings.Contains(e.Err, "Throttling") || strings.Contains(e.Err, "too many"):
		return "throttle"
	case strings.Contains(e.Err, "ValidationError"):
		return "validation"
	default:
		return "server-error"
	}
}

func panicClass(rec *sim.ScanRecord) string {
	// first escalator frame of the stack identifies the call site
	for _, l := range strings.Split(rec.Stack, "\n") {
		l = strings.TrimSpace(l)
		if strings.HasPrefix(l, "github.com/atlassian/escalator/") && !strings.Contains(l, "verif") {
			if i := strings.Index(l, "("); i > 0 {
				l = l[:i]
			}
			return strings.TrimPrefix(l, "github.com/atlassian/escalator/")
		}
	}
	return fmt.Sprint(rec.Panic)
}
