package direct

import (
	"encoding/json"
	"fmt"
	"os"
	"reflect"
	"sort"
	"strings"
	"time"

	"verifharness/monitor"

	"github.com/atlassian/escalator/pkg/controller"
	v1 "k8s.io/api/core/v1"
)

func init() { runners["C16"] = runC16 }

// safeToRun is the property's list of invariants, restated. It returns the names of the violated ones.
func safeToRun(o controller.NodeGroupOptions) []string {
	var bad []string
	add := func(ok bool, name string) {
		if !ok {
			bad = append(bad, name)
		}
	}
	add(o.Name != "", "name-empty")
	add(o.LabelKey != "", "label-key-empty")
	add(o.LabelValue != "", "label-value-empty")
	add(o.CloudProviderGroupName != "", "cloud-group-empty")
	add(o.TaintLowerCapacityThresholdPercent > 0, "lower<=0")
	add(o.TaintLowerCapacityThresholdPercent < o.TaintUpperCapacityThresholdPercent, "lower>=upper")
	add(o.TaintUpperCapacityThresholdPercent < o.ScaleUpThresholdPercent, "upper>=scaleup")
	add(o.SlowNodeRemovalRate >= 0, "slow<0")
	add(o.SlowNodeRemovalRate <= o.FastNodeRemovalRate, "slow>fast")
	soft, errS := time.ParseDuration(o.SoftDeleteGracePeriod)
	hard, errH := time.ParseDuration(o.HardDeleteGracePeriod)
	cool, errC := time.ParseDuration(o.ScaleUpCoolDownPeriod)
	add(errS == nil && soft > 0, "soft<=0")
	add(errS == nil && errH == nil && soft < hard, "soft>=hard")
	add(errC == nil && cool > 0, "cooldown<=0")
	add((o.MinNodes == 0 && o.MaxNodes == 0) || (o.MinNodes >= 0 && o.MinNodes < o.MaxNodes), "min-max")
	add(o.TaintEffect == "" || o.TaintEffect == v1.TaintEffectNoSchedule || o.TaintEffect == v1.TaintEffectNoExecute || o.TaintEffect == v1.TaintEffectPreferNoSchedule, "taint-effect")
	add(o.AWS.Lifecycle == "" || o.AWS.Lifecycle == "on-demand" || o.AWS.Lifecycle == "spot", "lifecycle")
	if o.MaxNodeAge != "" {
		_, err := time.ParseDuration(o.MaxNodeAge)
		add(err == nil, "max-node-age")
	}
	return bad
}

func validOpts() controller.NodeGroupOptions {
	return controller.NodeGroupOptions{Name: "shared", LabelKey: "customer", LabelValue: "shared", CloudProviderGroupName: "shared-nodes",
		MinNodes: 1, MaxNodes: 30, TaintUpperCapacityThresholdPercent: 40, TaintLowerCapacityThresholdPercent: 10, ScaleUpThresholdPercent: 70,
		SlowNodeRemovalRate: 2, FastNodeRemovalRate: 5, SoftDeleteGracePeriod: "1m", HardDeleteGracePeriod: "10m", ScaleUpCoolDownPeriod: "2m",
		TaintEffect: "NoExecute", MaxNodeAge: "24h"}
}

// optsMap is the configuration as the documented keys.
func optsMap(o controller.NodeGroupOptions) map[string]interface{} {
	m := map[string]interface{}{
		"name": o.Name, "label_key": o.LabelKey, "label_value": o.LabelValue, "cloud_provider_group_name": o.CloudProviderGroupName,
		"min_nodes": o.MinNodes, "max_nodes": o.MaxNodes, "dry_mode": o.DryMode, "scale_on_starve": o.ScaleOnStarve,
		"taint_upper_capacity_threshold_percent": o.TaintUpperCapacityThresholdPercent, "taint_lower_capacity_threshold_percent": o.TaintLowerCapacityThresholdPercent,
		"scale_up_threshold_percent": o.ScaleUpThresholdPercent, "slow_node_removal_rate": o.SlowNodeRemovalRate, "fast_node_removal_rate": o.FastNodeRemovalRate,
		"soft_delete_grace_period": o.SoftDeleteGracePeriod, "hard_delete_grace_period": o.HardDeleteGracePeriod, "scale_up_cool_down_period": o.ScaleUpCoolDownPeriod,
		"taint_effect": string(o.TaintEffect), "max_node_age": o.MaxNodeAge,
		"aws": map[string]interface{}{
			"fleet_instance_ready_timeout": o.AWS.FleetInstanceReadyTimeout, "launch_template_id": o.AWS.LaunchTemplateID, "launch_template_version": o.AWS.LaunchTemplateVersion,
			"lifecycle": o.AWS.Lifecycle, "instance_type_overrides": o.AWS.InstanceTypeOverrides, "resource_tagging": o.AWS.ResourceTagging,
		},
	}
	return m
}

func yamlScalar(v interface{}) string {
	switch x := v.(type) {
	case string:
		b, _ := json.Marshal(x)
		return string(b)
	case []string:
		parts := make([]string, len(x))
		for i, s := range x {
			b, _ := json.Marshal(s)
			parts[i] = string(b)
		}
		return "[" + strings.Join(parts, ", ") + "]"
	default:
		return fmt.Sprint(v)
	}
}

func renderYAML(groups []map[string]interface{}) string {
	var b strings.Builder
	b.WriteString("node_groups:\n")
	for _, g := range groups {
		keys := make([]string, 0, len(g))
		for k := range g {
			keys = append(keys, k)
		}
		sort.Strings(keys)
		first := true
		for _, k := range keys {
			prefix := "    "
			if first {
				prefix = "  - "
				first = false
			}
			if sub, ok := g[k].(map[string]interface{}); ok {
				fmt.Fprintf(&b, "%s%s:\n", prefix, k)
				sk := make([]string, 0, len(sub))
				for k2 := range sub {
					sk = append(sk, k2)
				}
				sort.Strings(sk)
				for _, k2 := range sk {
					fmt.Fprintf(&b, "        %s: %s\n", k2, yamlScalar(sub[k2]))
				}
				continue
			}
			fmt.Fprintf(&b, "%s%s: %s\n", prefix, k, yamlScalar(g[k]))
		}
	}
	return b.String()
}

func renderJSON(groups []map[string]interface{}) string {
	b, _ := json.Marshal(map[string]interface{}{"node_groups": groups})
	return string(b)
}

func decode(text string) ([]controller.NodeGroupOptions, error) {
	return controller.UnmarshalNodeGroupOptions(strings.NewReader(text))
}

func sameOpts(a, b controller.NodeGroupOptions) bool {
	if len(a.AWS.InstanceTypeOverrides) == 0 && len(b.AWS.InstanceTypeOverrides) == 0 {
		a.AWS.InstanceTypeOverrides, b.AWS.InstanceTypeOverrides = nil, nil
	}
	return reflect.DeepEqual(a, b)
}

// GateCase is handed to the driver, which runs the real escalator binary on it.
type GateCase struct {
	Name     string   `json:"name"`
	YAML     string   `json:"yaml"`
	Violated []string `json:"violated"` // invariants the oracle says are broken
	Problems int      `json:"problems"` // what ValidateNodeGroup returned
	// Provider, when set, is the node group configuration the cloud provider has to be built with for this file
	// (what cmd/main.go must hand to the provider: every aws.* option carried over, ready timeout defaulting to 1m)
	Provider []ProviderExpect `json:"provider,omitempty"`
}

// ProviderExpect mirrors cloudprovider.NodeGroupConfig as JSON.
type ProviderExpect struct {
	Name      string `json:"Name"`
	GroupID   string `json:"GroupID"`
	AWSConfig struct {
		LaunchTemplateID          string   `json:"LaunchTemplateID"`
		LaunchTemplateVersion     string   `json:"LaunchTemplateVersion"`
		FleetInstanceReadyTimeout int64    `json:"FleetInstanceReadyTimeout"`
		Lifecycle                 string   `json:"Lifecycle"`
		InstanceTypeOverrides     []string `json:"InstanceTypeOverrides"`
		ResourceTagging           bool     `json:"ResourceTagging"`
	} `json:"AWSConfig"`
}

func providerExpect(o controller.NodeGroupOptions) ProviderExpect {
	var e ProviderExpect
	e.Name, e.GroupID = o.Name, o.CloudProviderGroupName
	e.AWSConfig.LaunchTemplateID, e.AWSConfig.LaunchTemplateVersion = o.AWS.LaunchTemplateID, o.AWS.LaunchTemplateVersion
	e.AWSConfig.Lifecycle, e.AWSConfig.ResourceTagging = o.AWS.Lifecycle, o.AWS.ResourceTagging
	e.AWSConfig.InstanceTypeOverrides = o.AWS.InstanceTypeOverrides
	e.AWSConfig.FleetInstanceReadyTimeout = int64(time.Minute)
	if o.AWS.FleetInstanceReadyTimeout != "" {
		if d, err := time.ParseDuration(o.AWS.FleetInstanceReadyTimeout); err == nil {
			e.AWSConfig.FleetInstanceReadyTimeout = int64(d)
		}
	}
	return e
}

func runC16(tier string, seed int64, si, sn int, rep *monitor.Report, note func(string)) Outcome {
	const P = "C16"
	thr := []int{-1, 0, 1, 10, 40, 70, 100}
	rates := []int{-3, -2, 0, 2, 5}
	mm := []int{-1, 0, 1, 5}
	durs := []string{"", "0", "-1m", "1m", "10m", "abc"}
	effects := []v1.TaintEffect{"", "NoSchedule", "NoExecute", "PreferNoSchedule", "Bogus", "noschedule", "NoExecute "}
	lifecycles := []string{"", "on-demand", "spot", "x", "On-Demand", "SPOT", "spot ", "ondemand"}
	evals := 0
	accepted, rejected := 0, 0
	var gate []GateCase
	gateSeen := map[string]int{}
	firstOf := map[string]controller.NodeGroupOptions{} // one configuration per class, for the files with several groups

	judge := func(o controller.NodeGroupOptions, tag string) {
		evals++
		problems := controller.ValidateNodeGroup(o)
		bad := safeToRun(o)
		if len(problems) == 0 {
			accepted++
			if len(bad) > 0 {
				rep.Violate(P, "accepted-unsafe:"+bad[0], "validation accepts a configuration violating %v: lower=%d upper=%d up=%d slow=%d fast=%d min=%d max=%d soft=%q hard=%q cool=%q effect=%q lifecycle=%q maxage=%q names=(%q,%q,%q,%q)",
					bad, o.TaintLowerCapacityThresholdPercent, o.TaintUpperCapacityThresholdPercent, o.ScaleUpThresholdPercent, o.SlowNodeRemovalRate, o.FastNodeRemovalRate,
					o.MinNodes, o.MaxNodes, o.SoftDeleteGracePeriod, o.HardDeleteGracePeriod, o.ScaleUpCoolDownPeriod, o.TaintEffect, o.AWS.Lifecycle, o.MaxNodeAge,
					o.Name, o.LabelKey, o.LabelValue, o.CloudProviderGroupName)
			}
			rep.Covered(P, "cfg:"+tag+":accepted")
		} else {
			rejected++
			sig := "cfg:" + tag + ":rejected:"
			if len(bad) == 0 {
				sig += "although-safe"
			} else if len(bad) == 1 {
				sig += bad[0]
			} else {
				sig += "several"
			}
			rep.Covered(P, sig)
		}
		gclass := "several"
		if len(bad) == 0 {
			gclass = "safe"
		} else if len(bad) == 1 {
			gclass = bad[0]
		}
		if _, ok := firstOf[gclass]; !ok && (gclass != "safe" || len(problems) == 0) {
			firstOf[gclass] = o
		}
		if gateSeen[gclass] < 3 || (gclass == "safe" && gateSeen[gclass] < 8) {
			gateSeen[gclass]++
			gate = append(gate, GateCase{Name: fmt.Sprintf("grid-%s-%d", tag, evals), YAML: renderYAML([]map[string]interface{}{optsMap(o)}), Violated: bad, Problems: len(problems)})
		}
	}

	// (1) thresholds x rates x min/max x (soft,hard): the conjuncts that relate several fields, complete product
	idx := 0
	for _, lo := range thr {
		for _, up := range thr {
			for _, su := range thr {
				for _, slow := range rates {
					for _, fast := range rates {
						for _, mn := range mm {
							for _, mx := range mm {
								idx++
								if (idx+idx/16+idx/256)%sn != si {
									continue
								}
								for _, soft := range durs {
									for _, hard := range durs {
										o := validOpts()
										o.TaintLowerCapacityThresholdPercent, o.TaintUpperCapacityThresholdPercent, o.ScaleUpThresholdPercent = lo, up, su
										o.SlowNodeRemovalRate, o.FastNodeRemovalRate = slow, fast
										o.MinNodes, o.MaxNodes = mn, mx
										o.SoftDeleteGracePeriod, o.HardDeleteGracePeriod = soft, hard
										judge(o, "numeric")
									}
								}
							}
						}
					}
				}
			}
		}
	}
	// (2) the single-field conjuncts, complete product among themselves, on a valid and on a few invalid numeric cores
	if si == 0 {
		for _, cool := range durs {
			for _, age := range durs {
				for _, eff := range effects {
					for _, lc := range lifecycles {
						for names := 0; names < 16; names++ {
							for core := 0; core < 3; core++ {
								o := validOpts()
								o.ScaleUpCoolDownPeriod, o.MaxNodeAge, o.TaintEffect, o.AWS.Lifecycle = cool, age, eff, lc
								if names&1 != 0 {
									o.Name = ""
								}
								if names&2 != 0 {
									o.LabelKey = ""
								}
								if names&4 != 0 {
									o.LabelValue = ""
								}
								if names&8 != 0 {
									o.CloudProviderGroupName = ""
								}
								switch core {
								case 1:
									o.MinNodes, o.MaxNodes = 0, 0
								case 2:
									o.SlowNodeRemovalRate = 9
								}
								judge(o, "fields")
							}
						}
					}
				}
			}
		}
	}
	_, _ = accepted, rejected // a validator that accepts or rejects everything is caught by the coverage floors

	// (3) YAML = JSON, intended values, documented keys honoured (shard 0)
	if si == 0 {
		evals += c16Decoding(rep, &gate)
		// files with several node groups: one unsafe group first, in the middle or last among safe ones must be refused
		if safe, ok := firstOf["safe"]; ok {
			var classes []string
			for c := range firstOf {
				if c != "safe" {
					classes = append(classes, c)
				}
			}
			sort.Strings(classes)
			named := func(o controller.NodeGroupOptions, n string) map[string]interface{} {
				if o.Name != "" {
					o.Name = n
				}
				return optsMap(o)
			}
			for _, c := range classes {
				bad := firstOf[c]
				for pos := 0; pos < 3; pos++ {
					groups := []map[string]interface{}{named(safe, "safe-a"), named(safe, "safe-b")}
					groups = append(groups[:pos], append([]map[string]interface{}{named(bad, "unsafe")}, groups[pos:]...)...)
					gate = append(gate, GateCase{Name: fmt.Sprintf("multi-%s-pos%d", strings.ReplaceAll(strings.ReplaceAll(c, "<", "lt"), ">", "gt"), pos), YAML: renderYAML(groups), Violated: safeToRun(bad), Problems: len(controller.ValidateNodeGroup(bad))})
				}
			}
			gate = append(gate, GateCase{Name: "multi-all-safe", YAML: renderYAML([]map[string]interface{}{named(safe, "safe-a"), named(safe, "safe-b"), named(safe, "safe-c")})})
		}
		// hand the gate cases to the driver
		if dir := os.Getenv("VERIF_GATE_DIR"); dir != "" {
			b, _ := json.MarshalIndent(gate, "", " ")
			os.WriteFile(dir+"/gate_cases.json", b, 0o644)
		}
	}
	return Outcome{Evaluations: evals, Exhaustive: true}
}

func c16Decoding(rep *monitor.Report, gate *[]GateCase) int {
	const P = "C16"
	n := 0
	// a spread of configurations, two groups per file
	var cfgs []controller.NodeGroupOptions
	base := validOpts()
	cfgs = append(cfgs, base)
	o := base
	o.Name, o.DryMode, o.ScaleOnStarve, o.TaintEffect, o.MaxNodeAge = "default", true, true, "", ""
	o.AWS = controller.AWSNodeGroupOptions{FleetInstanceReadyTimeout: "45s", LaunchTemplateID: "lt-1a2b3c4d", LaunchTemplateVersion: "1", Lifecycle: "spot",
		InstanceTypeOverrides: []string{"t2.large", "t3.large"}, ResourceTagging: true}
	cfgs = append(cfgs, o)
	o = base
	o.MinNodes, o.MaxNodes = 0, 0
	o.HardDeleteGracePeriod, o.SoftDeleteGracePeriod = "1h30m", "90s"
	o.LabelValue = "with: colon #hash"
	o.CloudProviderGroupName = "asg \"quoted\" name"
	cfgs = append(cfgs, o)
	o = base
	o.TaintUpperCapacityThresholdPercent, o.TaintLowerCapacityThresholdPercent, o.ScaleUpThresholdPercent = 99, 98, 100
	o.SlowNodeRemovalRate, o.FastNodeRemovalRate = 0, 0
	cfgs = append(cfgs, o)
	for i := range cfgs {
		for j := range cfgs {
			groups := []map[string]interface{}{optsMap(cfgs[i]), optsMap(cfgs[j])}
			y, js := renderYAML(groups), renderJSON(groups)
			gy, errY := decode(y)
			gj, errJ := decode(js)
			n += 2
			if errY != nil || errJ != nil {
				rep.Violate(P, "decode-error", "decoding failed: yaml=%v json=%v\n%s", errY, errJ, y)
				continue
			}
			if len(gy) != 2 || len(gj) != 2 {
				rep.Violate(P, "decode-count", "decoded %d (yaml) / %d (json) groups instead of 2", len(gy), len(gj))
				continue
			}
			for k, want := range []controller.NodeGroupOptions{cfgs[i], cfgs[j]} {
				if !sameOpts(gy[k], gj[k]) {
					rep.Violate(P, "yaml-json-differ", "group %d decodes differently from YAML and JSON:\n yaml: %+v\n json: %+v", k, gy[k], gj[k])
				}
				if !sameOpts(gy[k], want) {
					rep.Violate(P, "decoded-values-wrong", "group %d: decoded %+v, written %+v", k, gy[k], want)
				}
			}
			rep.Covered(P, fmt.Sprintf("decode:pair%d-%d", i, j))
		}
	}
	// the same configuration with an empty leading / trailing YAML document, and with keys spelled in another
	// letter case in both renderings, is still the same configuration
	for i := range cfgs {
		groups := []map[string]interface{}{optsMap(cfgs[i])}
		plain, errP := decode(renderYAML(groups))
		n++
		if errP != nil || len(plain) != 1 {
			continue
		}
		for name, text := range map[string]string{
			"trailing-empty-document": renderYAML(groups) + "---\n# end of file\n",
			"leading-marker":          "---\n" + renderYAML(groups),
			"trailing-marker":         renderYAML(groups) + "...\n",
		} {
			got, err := decode(text)
			n++
			rep.Covered(P, "decode:yaml-"+name)
			if err != nil || len(got) != 1 || !sameOpts(got[0], plain[0]) {
				rep.Violate(P, "yaml-document-markers-change-result:"+name, "YAML with %s decodes to %d group(s) (err %v), the plain file to 1: %+v", name, len(got), err, got)
			}
		}
		// key spelling: both renderings with the same capitalised keys must agree with each other
		cased := map[string]interface{}{}
		for k, v := range optsMap(cfgs[i]) {
			switch k {
			case "name", "dry_mode", "max_nodes":
				cased[strings.ToUpper(k[:1])+k[1:]] = v
			case "aws":
				cased["AWS"] = v
			default:
				cased[k] = v
			}
		}
		cy, errY := decode(renderYAML([]map[string]interface{}{cased}))
		cj, errJ := decode(renderJSON([]map[string]interface{}{cased}))
		n += 2
		rep.Covered(P, "decode:key-case")
		if (errY == nil) != (errJ == nil) || (errY == nil && (len(cy) != len(cj) || (len(cy) == 1 && !sameOpts(cy[0], cj[0])))) {
			rep.Violate(P, "yaml-json-differ:key-case", "keys Name/Dry_mode/Max_nodes/AWS: YAML decodes to %+v (err %v), JSON to %+v (err %v)", cy, errY, cj, errJ)
		}
	}
	// what reaches the cloud provider: files with one to three valid groups differing in every aws.* option
	awsVariants := []controller.AWSNodeGroupOptions{
		{},
		{LaunchTemplateID: "lt-0aaa", LaunchTemplateVersion: "3"},
		{LaunchTemplateID: "lt-0bbb", LaunchTemplateVersion: "$Latest", FleetInstanceReadyTimeout: "45s", Lifecycle: "spot", InstanceTypeOverrides: []string{"m5.large"}, ResourceTagging: true},
		{LaunchTemplateID: "lt-0ccc", LaunchTemplateVersion: "12", FleetInstanceReadyTimeout: "2m30s", Lifecycle: "on-demand", InstanceTypeOverrides: []string{"c5.xlarge", "c5a.xlarge", "c4.xlarge"}},
		{FleetInstanceReadyTimeout: "1h", ResourceTagging: true},
	}
	for i := range awsVariants {
		for size := 1; size <= 3; size++ {
			var groups []map[string]interface{}
			var expect []ProviderExpect
			for k := 0; k < size; k++ {
				o := validOpts()
				o.Name = fmt.Sprintf("group-%d", k)
				o.CloudProviderGroupName = fmt.Sprintf("asg-%d-%d", i, k)
				o.AWS = awsVariants[(i+k)%len(awsVariants)]
				groups = append(groups, optsMap(o))
				expect = append(expect, providerExpect(o))
			}
			*gate = append(*gate, GateCase{Name: fmt.Sprintf("provider-%d-%d", i, size), YAML: renderYAML(groups), Provider: expect})
			n++
		}
	}
	// documented keys: every key of the example block in the documentation must influence the decoded options
	repo := os.Getenv("VERIF_REPO")
	if repo == "" {
		repo = "/repo"
	}
	doc, err := os.ReadFile(repo + "/docs/configuration/nodegroup.md")
	if err != nil {
		rep.Violate(P, "doc-missing", "cannot read the node group documentation: %v", err)
		return n
	}
	text := string(doc)
	a := strings.Index(text, "```yaml")
	b := strings.Index(text[a+7:], "```")
	if a < 0 || b < 0 {
		rep.Violate(P, "doc-example-missing", "no yaml example block in docs/configuration/nodegroup.md")
		return n
	}
	example := strings.TrimLeft(text[a+7:a+7+b], "\n")
	baseDec, err := decode(example)
	n++
	if err != nil || len(baseDec) != 1 {
		rep.Violate(P, "doc-example-undecodable", "the documented example does not decode to one group: %v", err)
		return n
	}
	if probs := controller.ValidateNodeGroup(baseDec[0]); len(probs) > 0 {
		rep.Violate(P, "doc-example-invalid", "the documented example fails validation: %v", probs)
	}
	*gate = append(*gate, GateCase{Name: "doc-example", YAML: example, Violated: safeToRun(baseDec[0]), Problems: len(controller.ValidateNodeGroup(baseDec[0])),
		Provider: []ProviderExpect{providerExpect(baseDec[0])}})
	lines := strings.Split(example, "\n")
	for li, line := range lines {
		trim := strings.TrimSpace(strings.TrimPrefix(strings.TrimSpace(line), "- "))
		ci := strings.Index(trim, ":")
		if ci <= 0 || trim == "node_groups:" {
			continue
		}
		key, val := trim[:ci], strings.TrimSpace(trim[ci+1:])
		if val == "" {
			continue // a mapping header such as aws:
		}
		newVal := changedValue(val)
		mod := append([]string(nil), lines...)
		mod[li] = strings.Replace(line, val, newVal, 1)
		dec, err := decode(strings.Join(mod, "\n"))
		n++
		if err != nil || len(dec) != 1 {
			rep.Violate(P, "doc-key-change-undecodable:"+key, "changing %s from %s to %s makes the example undecodable: %v", key, val, newVal, err)
			continue
		}
		if sameOpts(dec[0], baseDec[0]) {
			rep.Violate(P, "undecoded-doc-key:"+key, "documented key %q is ignored: changing its value from %s to %s leaves the decoded options unchanged", key, val, newVal)
		} else {
			rep.Covered(P, "doc-key-honoured:"+key)
		}
	}
	return n
}

func changedValue(val string) string {
	switch {
	case val == "true":
		return "false"
	case val == "false":
		return "true"
	case strings.HasPrefix(val, "["):
		return `["m5.xlarge"]`
	case strings.HasPrefix(val, `"`):
		if val == `"1"` {
			return `"2"`
		}
		return `"changed"`
	case val == "NoExecute":
		return "NoSchedule"
	case val == "on-demand":
		return "spot"
	case val == "lt-1a2b3c4d":
		return "lt-ffffffff"
	}
	// integers and durations
	if strings.HasSuffix(val, "m") || strings.HasSuffix(val, "h") || strings.HasSuffix(val, "s") {
		return "7" + val
	}
	return val + "1"
}
