package direct

import (
	"fmt"

	"verifharness/monitor"
	"verifharness/oracle"
	"verifharness/sim"

	"github.com/atlassian/escalator/pkg/controller"
	v1 "k8s.io/api/core/v1"
	metav1 "k8s.io/apimachinery/pkg/apis/meta/v1"
	"k8s.io/apimachinery/pkg/labels"
	v1lister "k8s.io/client-go/listers/core/v1"
)

func init() { runners["C14"] = runC14 }

const (
	c14Key   = "customer"
	c14Val   = "shared"
	c14Other = "other"
)

type named struct {
	name string
}

type selVariant struct {
	named
	sel map[string]string
}

type affVariant struct {
	named
	aff *v1.Affinity
}

type staticPodLister struct{ pods []*v1.Pod }

func (l staticPodLister) List(labels.Selector) ([]*v1.Pod, error)       { return l.pods, nil }
func (l staticPodLister) Pods(string) v1lister.PodNamespaceLister       { panic("unused") }

type swapPodLister struct{ pods []*v1.Pod }

func (l *swapPodLister) List(labels.Selector) ([]*v1.Pod, error) { return l.pods, nil }
func (l *swapPodLister) Pods(string) v1lister.PodNamespaceLister { panic("unused") }

type staticNodeLister struct{ nodes []*v1.Node }

func (l staticNodeLister) List(labels.Selector) ([]*v1.Node, error) { return l.nodes, nil }
func (l staticNodeLister) Get(string) (*v1.Node, error)              { panic("unused") }

func c14Selectors() []selVariant {
	return []selVariant{
		{named{"sel=nil"}, nil},
		{named{"sel=empty"}, map[string]string{}},
		{named{"sel=otherkey"}, map[string]string{c14Other: c14Val}},
		{named{"sel=othervalue"}, map[string]string{c14Key: c14Other}},
		{named{"sel=match"}, map[string]string{c14Key: c14Val}},
		{named{"sel=match+extra"}, map[string]string{c14Key: c14Val, "zone": "a"}},
		{named{"sel=value-as-key"}, map[string]string{c14Val: c14Key}},
	}
}

func c14Expressions() []v1.NodeSelectorRequirement {
	var out []v1.NodeSelectorRequirement
	for _, key := range []string{c14Key, c14Other} {
		for _, op := range []v1.NodeSelectorOperator{v1.NodeSelectorOpIn, v1.NodeSelectorOpNotIn, v1.NodeSelectorOpExists, v1.NodeSelectorOpDoesNotExist, v1.NodeSelectorOpGt} {
			for _, vals := range [][]string{nil, {c14Other}, {c14Val}, {c14Other, c14Val}} {
				out = append(out, v1.NodeSelectorRequirement{Key: key, Operator: op, Values: vals})
			}
		}
	}
	return out
}

func exprName(e v1.NodeSelectorRequirement) string {
	k := "key"
	if e.Key != c14Key {
		k = "other"
	}
	hasMatch := false
	for _, v := range e.Values {
		if v == c14Val {
			hasMatch = true
		}
	}
	return fmt.Sprintf("%s.%s.match=%v", k, e.Operator, hasMatch)
}

func c14Terms(small bool) ([]v1.NodeSelectorTerm, []string) {
	exprs := c14Expressions()
	var terms []v1.NodeSelectorTerm
	var names []string
	terms = append(terms, v1.NodeSelectorTerm{})
	names = append(names, "term0")
	terms = append(terms, v1.NodeSelectorTerm{MatchFields: []v1.NodeSelectorRequirement{{Key: c14Key, Operator: v1.NodeSelectorOpIn, Values: []string{c14Val}}}})
	names = append(names, "fieldsonly")
	for _, e := range exprs {
		terms = append(terms, v1.NodeSelectorTerm{MatchExpressions: []v1.NodeSelectorRequirement{e}})
		names = append(names, "1x("+exprName(e)+")")
	}
	if !small {
		for _, a := range exprs {
			for _, b := range exprs {
				terms = append(terms, v1.NodeSelectorTerm{MatchExpressions: []v1.NodeSelectorRequirement{a, b}})
				names = append(names, "2x("+exprName(a)+","+exprName(b)+")")
			}
		}
	}
	return terms, names
}

func nodeAff(terms ...v1.NodeSelectorTerm) *v1.Affinity {
	return &v1.Affinity{NodeAffinity: &v1.NodeAffinity{RequiredDuringSchedulingIgnoredDuringExecution: &v1.NodeSelector{NodeSelectorTerms: terms}}}
}

func c14Affinities() []affVariant {
	out := []affVariant{
		{named{"aff=nil"}, nil},
		{named{"aff=empty"}, &v1.Affinity{}},
		{named{"aff=nodeaffinity-empty"}, &v1.Affinity{NodeAffinity: &v1.NodeAffinity{}}},
		{named{"aff=required-noterms"}, &v1.Affinity{NodeAffinity: &v1.NodeAffinity{RequiredDuringSchedulingIgnoredDuringExecution: &v1.NodeSelector{}}}},
		{named{"aff=preferred-only-match"}, &v1.Affinity{NodeAffinity: &v1.NodeAffinity{PreferredDuringSchedulingIgnoredDuringExecution: []v1.PreferredSchedulingTerm{{Weight: 1,
			Preference: v1.NodeSelectorTerm{MatchExpressions: []v1.NodeSelectorRequirement{{Key: c14Key, Operator: v1.NodeSelectorOpIn, Values: []string{c14Val}}}}}}}}},
		{named{"aff=podaffinity-only"}, &v1.Affinity{PodAffinity: &v1.PodAffinity{}}},
		{named{"aff=podantiaffinity-only"}, &v1.Affinity{PodAntiAffinity: &v1.PodAntiAffinity{}}},
	}
	terms, names := c14Terms(false)
	for i, t := range terms {
		out = append(out, affVariant{named{"aff=1term:" + names[i]}, nodeAff(t)})
	}
	small, snames := c14Terms(true)
	for i, a := range small {
		for j, b := range small {
			out = append(out, affVariant{named{"aff=2terms:" + snames[i] + "+" + snames[j]}, nodeAff(a, b)})
		}
	}
	return out
}

func runC14(tier string, seed int64, si, sn int, rep *monitor.Report, note func(string)) Outcome {
	const P = "C14"
	cfg := &oracle.Cfg{Name: "shared", LabelKey: c14Key, LabelValue: c14Val}
	def := &oracle.Cfg{Name: "default", LabelKey: c14Key, LabelValue: c14Val}
	affFilter := controller.NewPodAffinityFilterFunc(c14Key, c14Val)
	defFilter := controller.NewPodDefaultFilterFunc()
	yes, no := true, false
	owners := []struct {
		name string
		refs []metav1.OwnerReference
	}{
		{"owner=none", nil},
		{"owner=replicaset", []metav1.OwnerReference{{Kind: "ReplicaSet", Name: "rs"}}},
		{"owner=daemonset", []metav1.OwnerReference{{Kind: "DaemonSet", Name: "ds"}}},
		{"owner=job+daemonset", []metav1.OwnerReference{{Kind: "Job", Name: "j"}, {Kind: "DaemonSet", Name: "ds"}}},
		// several owners, the controller flag on one of them: a DaemonSet among the owners decides, flag or not
		{"owner=job(controller)+daemonset", []metav1.OwnerReference{{Kind: "Job", Name: "j", Controller: &yes}, {Kind: "DaemonSet", Name: "ds"}}},
		{"owner=daemonset+replicaset(controller)", []metav1.OwnerReference{{Kind: "DaemonSet", Name: "ds", Controller: &no}, {Kind: "ReplicaSet", Name: "rs", Controller: &yes}}},
		{"owner=daemonset(controller)", []metav1.OwnerReference{{Kind: "DaemonSet", Name: "ds", Controller: &yes}}},
		{"owner=replicaset(controller)", []metav1.OwnerReference{{Kind: "ReplicaSet", Name: "rs", Controller: &yes}}},
	}
	statics := []struct {
		name string
		anno map[string]string
	}{
		{"static=absent", nil},
		{"static=file", map[string]string{"kubernetes.io/config.source": "file"}},
		{"static=api", map[string]string{"kubernetes.io/config.source": "api"}},
	}
	evals := 0
	var batch []*v1.Pod
	// long-lived listers, as in the running controller: every batch is served through the same two listers, and
	// every batch reuses the pod names of the previous one (a pod deleted and recreated under its name)
	backing := &swapPodLister{}
	longLived := map[string]*controller.NodeGroupLister{}
	for _, c := range []*oracle.Cfg{cfg, def} {
		opts := controller.NodeGroupOptions{Name: c.Name, LabelKey: c14Key, LabelValue: c14Val}
		if c.IsDefault() {
			longLived[c.Name] = controller.NewDefaultNodeGroupLister(backing, staticNodeLister{nil}, opts)
		} else {
			longLived[c.Name] = controller.NewNodeGroupLister(backing, staticNodeLister{nil}, opts)
		}
	}
	flush := func() {
		if len(batch) == 0 {
			return
		}
		// the filtered listers built by the real constructors must return exactly the expected subset, in order
		for i, p := range batch {
			p.Name = fmt.Sprintf("slot-%d", i)
		}
		backing.pods = batch
		for _, c := range []*oracle.Cfg{cfg, def} {
			lister := longLived[c.Name]
			got, err := lister.Pods.List()
			if err != nil {
				rep.Violate(P, "lister-error", "filtered pod lister of group %s failed: %v", c.Name, err)
				continue
			}
			var want []*v1.Pod
			for _, p := range batch {
				if oracle.PodInGroup(c, p) {
					want = append(want, p)
				}
			}
			same := len(got) == len(want)
			for i := 0; same && i < len(got); i++ {
				same = got[i] == want[i]
			}
			if !same {
				rep.Violate(P, "filtered-lister-mismatch:"+c.Name, "filtered pod lister of group %q returned %d pods, the documented rule selects %d of %d", c.Name, len(got), len(want), len(batch))
			}
		}
		batch = nil
	}
	// for the pass through the real informer cache below: every selector x every 7th affinity structure (and the
	// first three) x every owner list x every static-pod annotation
	var sample []*v1.Pod
	if si == 0 {
		for _, sel := range c14Selectors() {
			for ai, aff := range c14Affinities() {
				if ai > 2 && ai%7 != 0 {
					continue
				}
				for _, ow := range owners {
					for _, st := range statics {
						sample = append(sample, &v1.Pod{ObjectMeta: metav1.ObjectMeta{Name: fmt.Sprintf("sample-%d", len(sample)), Namespace: "ns", OwnerReferences: ow.refs, Annotations: st.anno},
							Spec: v1.PodSpec{NodeSelector: sel.sel, Affinity: aff.aff}})
					}
				}
			}
		}
	}
	idx := 0
	for _, sel := range c14Selectors() {
		for _, aff := range c14Affinities() {
			for _, ow := range owners {
				for _, st := range statics {
					idx++
					if idx%sn != si {
						continue
					}
					p := &v1.Pod{ObjectMeta: metav1.ObjectMeta{Name: fmt.Sprintf("p%d", idx), Namespace: "ns", OwnerReferences: ow.refs, Annotations: st.anno},
						Spec: v1.PodSpec{NodeSelector: sel.sel, Affinity: aff.aff}}
					evals += 2
					want, got := oracle.PodInGroup(cfg, p), affFilter(p)
					wantD, gotD := oracle.PodInGroup(def, p), defFilter(p)
					cls := affClass(aff.name)
					rep.Covered(P, fmt.Sprintf("pod:%s:%s:%s:%s:in=%v:default=%v", sel.name, cls, ow.name, st.name, want, wantD))
					if want != got {
						rep.Violate(P, "pod-attribution:"+cls, "labelled group: pod with %s %s %s %s: filter says %v, documented rule says %v", sel.name, aff.name, ow.name, st.name, got, want)
					}
					if wantD != gotD {
						rep.Violate(P, "default-attribution:"+cls, "default group: pod with %s %s %s %s: filter says %v, documented rule says %v", sel.name, aff.name, ow.name, st.name, gotD, wantD)
					}
					if idx%9973 == 0 {
						rep.Sample(P, fmt.Sprintf("pod %s %s %s %s -> group=%v default=%v", sel.name, aff.name, ow.name, st.name, got, gotD))
					}
					batch = append(batch, p)
					if len(batch) >= 512 {
						flush()
					}

				}
			}
		}
	}
	flush()

	// The same rule through the real informer cache: NewController/NewClient build the pod and node informers, which
	// list once through a REST client served from a store holding the sampled shapes; the controller's own
	// informer-backed filtered listers must then return exactly the pods and nodes the documented rule selects.
	if si == 0 && len(sample) > 0 {
		specs := []sim.GroupSpec{
			{Opts: controller.NodeGroupOptions{Name: "shared", LabelKey: c14Key, LabelValue: c14Val, CloudProviderGroupName: "asg-shared", MinNodes: 1, MaxNodes: 9}},
			{Opts: controller.NodeGroupOptions{Name: "default", LabelKey: c14Key, LabelValue: c14Val, CloudProviderGroupName: "asg-default", MinNodes: 1, MaxNodes: 9}},
		}
		env := sim.NewEnv(specs, false, 1)
		env.AddASG(0, 0, 9, 1)
		env.AddASG(1, 0, 9, 1)
		for _, p := range sample {
			env.K.PutPod(p)
		}
		for i, l := range []map[string]string{nil, {c14Other: c14Val}, {c14Key: c14Other}, {c14Key: c14Val}, {c14Key: c14Val, "zone": "a"}} {
			env.K.PutNode(&v1.Node{ObjectMeta: metav1.ObjectMeta{Name: fmt.Sprintf("n%d", i), Labels: l}})
		}
		probed := false
		env.RealConstructor = true
		env.InformerProbe = func(ctl *controller.Controller) {
			probed = true
			for _, c := range []*oracle.Cfg{cfg, def} {
				l := ctl.Client.Listers[c.Name]
				if l == nil {
					rep.Violate(P, "informer-lister-missing", "the controller built by NewController has no lister for group %q", c.Name)
					continue
				}
				got, err := l.Pods.List()
				if err != nil {
					rep.Violate(P, "lister-error", "informer-backed pod lister of group %s failed: %v", c.Name, err)
					continue
				}
				gotSet := map[string]bool{}
				for _, p := range got {
					gotSet[p.Name] = true
				}
				want := 0
				for _, p := range sample {
					in := oracle.PodInGroup(c, p)
					if in {
						want++
					}
					if in != gotSet[p.Name] {
						rep.Violate(P, "informer-lister-mismatch:"+c.Name, "group %q, pod %s (selector %v, owners %v, annotations %v): the informer-backed lister of the controller says %v, the documented rule says %v",
							c.Name, p.Name, p.Spec.NodeSelector, p.OwnerReferences, p.Annotations, gotSet[p.Name], in)
						break
					}
				}
				evals += len(sample)
				rep.Covered(P, fmt.Sprintf("informer-path:%s:pods-selected=%v", c.Name, want > 0))
				nodes, err := l.Nodes.List()
				if err != nil {
					rep.Violate(P, "lister-error", "informer-backed node lister of group %s failed: %v", c.Name, err)
					continue
				}
				if len(nodes) != 2 {
					rep.Violate(P, "informer-node-lister-mismatch:"+c.Name, "group %q: the informer-backed node lister returned %d nodes, the label rule selects 2 of 5", c.Name, len(nodes))
				}
			}
		}
		if err := env.Start(); err != nil {
			rep.Violate(P, "informer-path-setup", "cannot build a controller through the real NewController: %v", err)
		} else if !probed {
			rep.Violate(P, "informer-path-setup", "the real constructor was not used")
		}
	}

	// nodes
	nodeMaps := []struct {
		name string
		l    map[string]string
	}{
		{"labels=nil", nil}, {"labels=empty", map[string]string{}}, {"labels=otherkey", map[string]string{c14Other: c14Val}},
		{"labels=othervalue", map[string]string{c14Key: c14Other}}, {"labels=match", map[string]string{c14Key: c14Val}},
		{"labels=match+extra", map[string]string{c14Key: c14Val, "zone": "a"}}, {"labels=value-as-key", map[string]string{c14Val: c14Key}},
		{"labels=emptyvalue", map[string]string{c14Key: ""}}, {"labels=prefix", map[string]string{c14Key: c14Val + "x"}}, {"labels=case", map[string]string{c14Key: "Shared"}},
	}
	nf := controller.NewNodeLabelFilterFunc(c14Key, c14Val)
	if si == 0 {
		var all []*v1.Node
		for i, nm := range nodeMaps {
			n := &v1.Node{ObjectMeta: metav1.ObjectMeta{Name: fmt.Sprintf("n%d", i), Labels: nm.l}}
			all = append(all, n)
			evals++
			want, got := oracle.NodeInGroup(cfg, n), nf(n)
			rep.Covered(P, fmt.Sprintf("node:%s:in=%v", nm.name, want))
			if want != got {
				rep.Violate(P, "node-attribution", "node with %s: filter says %v, rule says %v", nm.name, got, want)
			}
		}
		for _, c := range []*oracle.Cfg{cfg, def} {
			opts := controller.NodeGroupOptions{Name: c.Name, LabelKey: c14Key, LabelValue: c14Val}
			var lister *controller.NodeGroupLister
			if c.IsDefault() {
				lister = controller.NewDefaultNodeGroupLister(staticPodLister{}, staticNodeLister{all}, opts)
			} else {
				lister = controller.NewNodeGroupLister(staticPodLister{}, staticNodeLister{all}, opts)
			}
			got, _ := lister.Nodes.List()
			n := 0
			for _, x := range all {
				if oracle.NodeInGroup(c, x) {
					n++
				}
			}
			if len(got) != n {
				rep.Violate(P, "filtered-node-lister-mismatch", "node lister of group %q returned %d nodes, rule selects %d", c.Name, len(got), n)
			}
		}
	}
	return Outcome{Evaluations: evals, Exhaustive: true}
}

// affClass collapses the affinity variant name into a coarse class for signatures.
func affClass(name string) string {
	switch {
	case len(name) >= 9 && name[:9] == "aff=1term":
		if containsAll(name, "key.In.match=true") {
			return "1term-in-match"
		}
		if containsAll(name, "2x(") {
			return "1term-2expr-nomatch"
		}
		return "1term-nomatch"
	case len(name) >= 10 && name[:10] == "aff=2terms":
		if containsAll(name, "key.In.match=true") {
			return "2terms-in-match"
		}
		return "2terms-nomatch"
	}
	return name
}

func containsAll(s, sub string) bool {
	for i := 0; i+len(sub) <= len(s); i++ {
		if s[i:i+len(sub)] == sub {
			return true
		}
	}
	return false
}
