package direct

import (
	"fmt"
	"math/rand"
	"sort"

	"verifharness/engine"
	"verifharness/monitor"
	"verifharness/sim"
)

func init() { runners["C20"] = runC20 }

var allKinds = []sim.FaultKind{sim.FNotFound, sim.FConflict, sim.FServerErr, sim.FThrottle, sim.FValidation, sim.FAfterEffect, sim.FCrash}

// runC20 enumerates failure points: for each base history (fault-free, seed-determined) the scans with the
// most API calls are selected, and the history is replayed from the seed once per (call index, failure kind),
// then per pair of call indexes. Every replay runs under all monitors; the scans after the failure are fault-free.
func runC20(tier string, seed int64, si, sn int, rep *monitor.Report, note func(string)) Outcome {
	const P = "C20"
	bases := 32
	pairBudget := 300
	if tier == "thorough" {
		bases = 320
		pairBudget = 2000
	}
	evals := 0
	r := rand.New(rand.NewSource(seed*131 + int64(si)))
	for b := 0; b < bases; b++ {
		if b%sn != si {
			continue
		}
		base := engine.CaseSpec{Profile: "enum", Seed: seed, Index: b}
		var calls []int
		base.CallsPerScan = &calls
		scratch := monitor.NewReport()
		note(base.ID())
		if _, err := engine.RunCase(base, scratch, nil); err != nil {
			rep.Violate(P, "base-history-error", "%s: %v", base.ID(), err)
			continue
		}
		for c, what := range scratch.Unmodelled {
			rep.SetCase(c)
			rep.NoteUnmodelled(what)
		}
		for _, v := range scratch.Violations {
			// a violation in the fault-free base history belongs to whichever property it names
			rep.Violations = append(rep.Violations, v)
		}
		// target scans: the two with the most calls, and the last one
		order := make([]int, len(calls))
		for i := range order {
			order[i] = i
		}
		sort.SliceStable(order, func(i, j int) bool { return calls[order[i]] > calls[order[j]] })
		targets := map[int]bool{len(calls) - 1: true}
		for _, s := range order[:2] {
			targets[s] = true
		}
		var tlist []int
		for s := range targets {
			tlist = append(tlist, s)
		}
		sort.Ints(tlist)
		for _, s := range tlist {
			n := calls[s]
			rep.Covered(P, fmt.Sprintf("enum:scan-with-%s-calls", bucketN64(int64(n))))
			// single failures: every index, every kind
			for i := 0; i < n; i++ {
				for _, k := range allKinds {
					c := engine.CaseSpec{Profile: "enum", Seed: seed, Index: b, Fault: engine.FaultSpec(s, []int{i}, []sim.FaultKind{k})}
					note(c.ID())
					if _, err := engine.RunCase(c, rep, nil); err != nil {
						rep.Violate(P, "replay-error", "%s: %v", c.ID(), err)
					}
					evals++
				}
			}
			// the refresh (always call 0) answers without one of the registered groups
			for _, k := range []sim.FaultKind{sim.FOmitFirst, sim.FOmitLast} {
				c := engine.CaseSpec{Profile: "enum", Seed: seed, Index: b, Fault: engine.FaultSpec(s, []int{0}, []sim.FaultKind{k})}
				note(c.ID())
				if _, err := engine.RunCase(c, rep, nil); err != nil {
					rep.Violate(P, "replay-error", "%s: %v", c.ID(), err)
				}
				evals++
			}
			rep.Covered(P, "enum:single-failures-complete")
			// double failures: all pairs when the scan is small, sampled otherwise
			type pr struct{ i, j int }
			var pairs []pr
			for i := 0; i < n; i++ {
				for j := i + 1; j < n; j++ {
					pairs = append(pairs, pr{i, j})
				}
			}
			complete := true
			if n > 40 || len(pairs) > pairBudget {
				r.Shuffle(len(pairs), func(a, b int) { pairs[a], pairs[b] = pairs[b], pairs[a] })
				if len(pairs) > pairBudget {
					pairs = pairs[:pairBudget]
					complete = false
				}
			}
			for _, p := range pairs {
				k1 := allKinds[r.Intn(5)]
				k2 := allKinds[r.Intn(5)]
				c := engine.CaseSpec{Profile: "enum", Seed: seed, Index: b, Fault: engine.FaultSpec(s, []int{p.i, p.j}, []sim.FaultKind{k1, k2})}
				note(c.ID())
				if _, err := engine.RunCase(c, rep, nil); err != nil {
					rep.Violate(P, "replay-error", "%s: %v", c.ID(), err)
				}
				evals++
			}
			if complete {
				rep.Covered(P, "enum:double-failures-complete")
			} else {
				rep.Covered(P, "enum:double-failures-sampled")
			}
		}
	}
	return Outcome{Evaluations: evals}
}
