// Package direct holds the checks that drive exported functions and the real AWS
// provider directly (no controller history): arithmetic sweeps, calculators, filters,
// validation and decoding, provider scale-up/fleet/removal behaviour.
package direct

import "verifharness/monitor"

// Outcome summarises a direct run.
type Outcome struct {
	Evaluations int
	Exhaustive  bool
}

type runner func(tier string, seed int64, si, sn int, rep *monitor.Report, note func(string)) Outcome

var runners = map[string]runner{}

// Run dispatches to the property's direct check.
func Run(prop, tier string, seed int64, si, sn int, rep *monitor.Report, note func(string)) Outcome {
	if f, ok := runners[prop]; ok {
		rep.SetCase("direct:" + prop)
		return f(tier, seed, si, sn, rep, note)
	}
	return Outcome{}
}
