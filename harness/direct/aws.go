package direct

import (
	"fmt"
	"sort"
	"strings"
	"time"

	"verifharness/monitor"
	"verifharness/sim"

	"github.com/atlassian/escalator/pkg/cloudprovider"
	"github.com/atlassian/escalator/pkg/cloudprovider/aws"
	v1 "k8s.io/api/core/v1"
	metav1 "k8s.io/apimachinery/pkg/apis/meta/v1"
)

func init() {
	runners["C17"] = runC17
	runners["C18"] = runC18
	runners["C19"] = runC19
}

type awsFixture struct {
	J     *sim.Journal
	F     *sim.FaultPlan
	C     *sim.Cloud
	ASG   *sim.ASG
	NG    cloudprovider.NodeGroup
	Nodes []*v1.Node
}

// newAWS builds a simulated cloud with one group of `size` instances and the real provider on top of it.
func newAWS(min, max, desired int64, size int, cfg cloudprovider.AWSNodeGroupConfig, subnets string) (*awsFixture, error) {
	j := &sim.Journal{}
	j.EndScan()
	f := &sim.FaultPlan{}
	c := sim.NewCloud(j, f)
	g := &sim.ASG{Name: "asg-x", Min: min, Max: max, Desired: desired, Subnets: subnets, Tags: map[string]string{}, Tag: "x"}
	c.ASGs[g.Name] = g
	fx := &awsFixture{J: j, F: f, C: c, ASG: g}
	for i := 0; i < size; i++ {
		inst := c.Launch(g, "us-east-1a")
		fx.Nodes = append(fx.Nodes, &v1.Node{ObjectMeta: metav1.ObjectMeta{Name: sim.NodeNameFor(inst.ID)}, Spec: v1.NodeSpec{ProviderID: sim.ProviderID(inst)}})
	}
	prov, err := aws.VerifNewCloudProvider(&sim.ASGService{C: c}, &sim.EC2Service{C: c}, cloudprovider.NodeGroupConfig{Name: "grp", GroupID: g.Name, AWSConfig: cfg})
	if err != nil {
		return nil, err
	}
	ng, ok := prov.GetNodeGroup(g.Name)
	if !ok {
		return nil, fmt.Errorf("node group not registered")
	}
	fx.NG = ng
	// the group segment counter is at -1: calls are journalled as outside any group, which is fine here
	return fx, nil
}

func (fx *awsFixture) writes(from int) []*sim.Event {
	var out []*sim.Event
	for _, e := range fx.J.Events[from:] {
		if e.IsWrite() {
			out = append(out, e)
		}
	}
	return out
}

// call runs f with panics and log.Fatal converted into a return value.
func call(f func() error) (err error, panicked interface{}) {
	defer func() {
		if r := recover(); r != nil {
			panicked = r
		}
	}()
	return f(), nil
}

// ---- C17 ---------------------------------------------------------------------------------------

func runC17(tier string, seed int64, si, sn int, rep *monitor.Report, note func(string)) Outcome {
	const P = "C17"
	evals := 0
	idx := 0
	// (a) SetDesiredCapacity strategy
	maxD := int64(60)
	for desired := int64(0); desired <= maxD; desired++ {
		for _, d := range []int64{-5, -1, 0, 1, 2, 3, 19, 20, 21, 40, 100} {
			for _, rel := range []int64{-2, -1, 0, 1, 2, 50} { // max relative to desired+d
				// the group lists as many instances as it desires, or more (terminating ones are still listed), or fewer
				// (not launched yet): the target asked for is desired + delta in every case
				for _, listed := range []int64{0, 2, 7, -1} {
					idx++
					if idx%sn != si {
						continue
					}
					max := desired + d + rel
					if d < 0 {
						max = desired + rel + 3
					}
					if max < desired || max < 1 || desired+listed < 0 {
						continue
					}
					fx, err := newAWS(0, max, desired, int(desired+listed), cloudprovider.AWSNodeGroupConfig{}, "subnet-a")
					if err != nil {
						rep.Violate(P, "fixture", "cannot build provider: %v", err)
						continue
					}
					from := len(fx.J.Events)
					evals++
					err, pv := call(func() error { return fx.NG.IncreaseSize(d) })
					w := fx.writes(from)
					legal := d > 0 && desired+d <= max
					cls := "ok"
					switch {
					case d <= 0:
						cls = "nonpositive"
					case desired+d > max:
						cls = "above-max"
					case desired+d == max:
						cls = "exactly-max"
					}
					switch {
					case listed > 0:
						cls += ":more-instances-than-desired"
					case listed < 0:
						cls += ":fewer-instances-than-desired"
					}
					rep.Covered(P, fmt.Sprintf("setdesired:%s:desired%s:d%s", cls, bucketN64(desired), bucketN64(d)))
					if pv != nil {
						rep.Violate(P, "panic", "IncreaseSize(%d) on desired=%d max=%d panicked: %v", d, desired, max, pv)
						continue
					}
					if !legal {
						if err == nil {
							rep.Violate(P, "illegal-increase-accepted", "IncreaseSize(%d) on desired=%d max=%d returned no error", d, desired, max)
						}
						if len(w) != 0 {
							rep.Violate(P, "write-on-rejected-increase", "IncreaseSize(%d) on desired=%d max=%d issued %v", d, desired, max, w)
						}
						continue
					}
					if err != nil {
						rep.Violate(P, "legal-increase-failed", "IncreaseSize(%d) on desired=%d max=%d failed: %v", d, desired, max, err)
						continue
					}
					if len(w) != 1 || w[0].API != sim.AwsSetDes || w[0].Desired != desired+d || w[0].Target != fx.ASG.Name {
						rep.Violate(P, "setdesired-not-current-plus-delta", "IncreaseSize(%d) on desired=%d: expected exactly one SetDesiredCapacity(%d), saw %v", d, desired, desired+d, w)
					}
					if fx.ASG.Desired < desired {
						rep.Violate(P, "desired-lowered", "IncreaseSize(%d) lowered desired from %d to %d", d, desired, fx.ASG.Desired)
					}
					if evals%97 == 0 {
						rep.Sample(P, fmt.Sprintf("IncreaseSize(%d) desired=%d max=%d -> %v", d, desired, max, w))
					}
				}
			}
		}
	}
	// (b) fleet strategy
	sizes := []int64{1, 2, 19, 20, 21, 39, 40, 41, 59, 60, 61, 100}
	if tier == "thorough" {
		sizes = append(sizes, 199, 200, 201, 999, 1000, 1001)
	} else {
		sizes = append(sizes, 200, 1000)
	}
	for _, n := range sizes {
		for _, groups := range []int{1, 2, 3, 7} {
			for _, lifecycle := range []string{"", "on-demand", "spot"} {
				for _, overrides := range [][]string{nil, {"m5.large"}, {"m5.large", "m5a.large", "m4.large"}} {
					for _, subnets := range []string{"subnet-a", "subnet-a,subnet-b", "subnet-a,subnet-b,subnet-c"} {
						for _, desired := range []int64{0, 3} {
							idx++
							if idx%sn != si {
								continue
							}
							evals++
							c17Fleet(rep, n, groups, lifecycle, overrides, subnets, desired)
						}
					}
				}
			}
		}
	}
	// a rejected or failed request must not poison the next one: two calls on the same provider without a refresh.
	// (A *successful* first call is not followed up here: the provider does not refresh its description by itself,
	// the controller refreshes it at the start of every scan and resizes a group at most once per scan, so "current"
	// would be ambiguous and the property does not speak about it.)
	if si == 0 {
		for _, first := range []struct {
			name  string
			d     int64
			fault bool
		}{{"cloud-error", 3, true}, {"above-max", 50, false}, {"nonpositive", 0, false}} {
			for _, d2 := range []int64{1, 2, 4} {
				fx, _ := newAWS(0, 12, 5, 5, cloudprovider.AWSNodeGroupConfig{}, "subnet-a")
				fx.F.Reset()
				if first.fault {
					fx.F.Ordinal = map[string]map[int]sim.FaultKind{sim.AwsSetDes: {1: sim.FThrottle}}
				}
				call(func() error { return fx.NG.IncreaseSize(first.d) })
				fx.F.Ordinal = nil
				before := fx.ASG.Desired
				from := len(fx.J.Events)
				err, pv := call(func() error { return fx.NG.IncreaseSize(d2) })
				evals++
				w := fx.writes(from)
				rep.Covered(P, fmt.Sprintf("setdesired:second-call-after-%s", first.name))
				legal := before+d2 <= 12
				switch {
				case pv != nil:
					rep.Violate(P, "panic", "second IncreaseSize(%d) after a %s first call panicked: %v", d2, first.name, pv)
				case legal && (err != nil || len(w) != 1 || w[0].Desired != before+d2):
					rep.Violate(P, "second-call-not-current-plus-delta", "IncreaseSize(%d) on a real desired capacity of %d, after a first call (%s, delta %d): err=%v writes=%v, expected exactly SetDesiredCapacity(%d)", d2, before, first.name, first.d, err, w, before+d2)
				case !legal && (err == nil || len(w) != 0):
					rep.Violate(P, "second-call-illegal-accepted", "IncreaseSize(%d) on desired %d max 12 after a first call (%s): err=%v writes=%v", d2, before, first.name, err, w)
				}
				if fx.ASG.Desired < before {
					rep.Violate(P, "desired-lowered", "second IncreaseSize(%d) lowered desired from %d to %d", d2, before, fx.ASG.Desired)
				}
			}
		}
	}
	// fleet: rejected requests must not reach AWS at all
	if si == 0 {
		for _, d := range []int64{-1, 0, 5} {
			fx, _ := newAWS(0, 4, 2, 2, cloudprovider.AWSNodeGroupConfig{LaunchTemplateID: "lt-1", LaunchTemplateVersion: "1", FleetInstanceReadyTimeout: 10 * time.Second}, "subnet-a")
			from := len(fx.J.Events)
			err, _ := call(func() error { return fx.NG.IncreaseSize(d) })
			evals++
			rep.Covered(P, fmt.Sprintf("fleet:rejected:d%d", d))
			if err == nil || len(fx.writes(from)) != 0 {
				rep.Violate(P, "fleet-illegal-increase", "fleet IncreaseSize(%d) on desired 2 max 4: err=%v writes=%v", d, err, fx.writes(from))
			}
		}
	}
	return Outcome{Evaluations: evals}
}

func bucketN64(n int64) string {
	switch {
	case n < 0:
		return "<0"
	case n == 0:
		return "0"
	case n == 1:
		return "1"
	case n <= 20:
		return "2-20"
	default:
		return ">20"
	}
}

func c17Fleet(rep *monitor.Report, n int64, groups int, lifecycle string, overrides []string, subnets string, desired int64) {
	const P = "C17"
	cfg := cloudprovider.AWSNodeGroupConfig{LaunchTemplateID: "lt-0abc", LaunchTemplateVersion: "7", FleetInstanceReadyTimeout: 30 * time.Second,
		Lifecycle: lifecycle, InstanceTypeOverrides: overrides, ResourceTagging: groups%2 == 0}
	fx, err := newAWS(0, desired+n+5, desired, int(desired), cfg, subnets)
	if err != nil {
		rep.Violate(P, "fixture", "cannot build provider: %v", err)
		return
	}
	fx.C.Fleet = sim.FleetScript{Groups: groups, ReadyAfter: 2 * time.Second, PageSize: 50, WithErrors: groups == 3}
	from := len(fx.J.Events)
	err, pv := call(func() error { return fx.NG.IncreaseSize(n) })
	desc := fmt.Sprintf("fleet IncreaseSize(%d) desired=%d groups=%d lifecycle=%q overrides=%d subnets=%d", n, desired, groups, lifecycle, len(overrides), strings.Count(subnets, ",")+1)
	rep.Covered(P, fmt.Sprintf("fleet:n%s:batches%d:groups%d:%s:ov%d", bucketN64(n), (n+19)/20, groups, lifecycle, len(overrides)))
	if pv != nil {
		rep.Violate(P, "panic", "%s panicked: %v", desc, pv)
		return
	}
	if err != nil {
		rep.Violate(P, "fleet-increase-failed", "%s failed: %v", desc, err)
		return
	}
	var fleets, attaches, others []*sim.Event
	for _, e := range fx.writes(from) {
		switch e.API {
		case sim.AwsFleet:
			fleets = append(fleets, e)
		case sim.AwsAttach:
			attaches = append(attaches, e)
		default:
			others = append(others, e)
		}
	}
	if len(fleets) != 1 {
		rep.Violate(P, "fleet-request-count", "%s: %d CreateFleet calls", desc, len(fleets))
		return
	}
	fr := fleets[0].Fleet
	want := lifecycle
	if want == "" {
		want = "on-demand"
	}
	minOK := false
	if want == "on-demand" {
		minOK = fr.OnDemandMin != nil && *fr.OnDemandMin == n && fr.SpotMin == nil
	} else {
		minOK = fr.SpotMin != nil && *fr.SpotMin == n && fr.OnDemandMin == nil
	}
	if fr.Total != n || fr.Type != "instant" || fr.DefaultType != want || !minOK {
		rep.Violate(P, "fleet-request-shape", "%s: CreateFleet total=%d type=%s default=%s ondemandMin=%v spotMin=%v (want all-or-nothing %d of %s)", desc, fr.Total, fr.Type, fr.DefaultType, fr.OnDemandMin, fr.SpotMin, n, want)
	}
	if fr.TemplateID != "lt-0abc" || fr.TemplateVer != "7" {
		rep.Violate(P, "fleet-template", "%s: template %s/%s", desc, fr.TemplateID, fr.TemplateVer)
	}
	var wantOv []string
	for _, s := range strings.Split(subnets, ",") {
		if len(overrides) == 0 {
			wantOv = append(wantOv, s+"|")
		}
		for _, t := range overrides {
			wantOv = append(wantOv, s+"|"+t)
		}
	}
	got := append([]string(nil), fr.Overrides...)
	sort.Strings(got)
	sort.Strings(wantOv)
	if strings.Join(got, ",") != strings.Join(wantOv, ",") {
		rep.Violate(P, "fleet-overrides", "%s: overrides %v, expected %v", desc, got, wantOv)
	}
	if fr.Tagged != cfg.ResourceTagging {
		rep.Violate(P, "fleet-tagging", "%s: tagged=%v configured=%v", desc, fr.Tagged, cfg.ResourceTagging)
	}
	// attach calls partition the acquired ids
	seen := map[string]int{}
	for _, a := range attaches {
		if len(a.IDs) > 20 {
			rep.Violate(P, "attach-batch-over-20", "%s: AttachInstances with %d ids", desc, len(a.IDs))
		}
		if len(a.IDs) == 0 {
			rep.Violate(P, "attach-empty-batch", "%s: AttachInstances with no ids", desc)
		}
		if a.Target != fx.ASG.Name {
			rep.Violate(P, "attach-wrong-group", "%s: attached to %s", desc, a.Target)
		}
		if !a.OK() {
			rep.Violate(P, "attach-failed", "%s: %s", desc, a)
		}
		for _, id := range a.IDs {
			seen[id]++
		}
	}
	for _, id := range fr.Returned {
		if seen[id] != 1 {
			rep.Violate(P, "attach-not-exactly-once", "%s: instance %s attached %d times", desc, id, seen[id])
			break
		}
	}
	if len(seen) != len(fr.Returned) {
		rep.Violate(P, "attach-foreign-ids", "%s: attached %d distinct ids, acquired %d", desc, len(seen), len(fr.Returned))
	}
	if len(others) != 0 {
		rep.Violate(P, "unexpected-writes", "%s: %v", desc, others)
	}
	if fx.ASG.Desired != desired+n {
		rep.Violate(P, "desired-after-fleet", "%s: desired is %d afterwards, expected %d", desc, fx.ASG.Desired, desired+n)
	}
}

// ---- C18 ---------------------------------------------------------------------------------------

func runC18(tier string, seed int64, si, sn int, rep *monitor.Report, note func(string)) Outcome {
	const P = "C18"
	sizes := []int64{1, 2, 19, 20, 21, 39, 40, 41, 59, 60, 61, 100, 999, 1000, 1001, 1999, 2000, 2001, 2500}
	evals := 0
	idx := 0
	for _, n := range sizes {
		batches := int((n + 19) / 20)
		type fp struct {
			kind     string
			attachK  int // 1-based failing attach call; 0 = none
			termFail int // 1-based failing terminate call; 0 = none
			timeout  time.Duration
		}
		var points []fp
		for _, to := range []time.Duration{2500 * time.Millisecond, 5 * time.Second} {
			points = append(points, fp{kind: "never-ready", timeout: to})
		}
		// a ready-timeout of zero or less (what an unparsable or "0s" option amounts to): timed out at once, everything terminated
		points = append(points, fp{kind: "never-ready:zero-timeout", timeout: 0}, fp{kind: "never-ready:negative-timeout", timeout: -30 * time.Second})
		points = append(points, fp{kind: "never-ready+terminate-fails", timeout: 2500 * time.Millisecond, termFail: 1})
		// the fleet answers with errors and with some, but not all, of the instances asked for: nothing fails afterwards
		if n > 1 {
			points = append(points, fp{kind: "short-answer-with-errors", timeout: 30 * time.Second})
		}
		for k := 1; k <= batches; k++ {
			points = append(points, fp{kind: "attach-fails", attachK: k, timeout: 30 * time.Second})
		}
		for _, k := range []int{1, (batches + 1) / 2, batches} {
			terms := int((n - int64(k-1)*20 + 999) / 1000)
			for t := 1; t <= terms; t++ {
				points = append(points, fp{kind: "attach-fails+terminate-fails", attachK: k, termFail: t, timeout: 30 * time.Second})
			}
		}
		for _, pt := range points {
			idx++
			if idx%sn != si {
				continue
			}
			evals++
			note(fmt.Sprintf("direct:C18:n=%d:%s:k=%d:t=%d", n, pt.kind, pt.attachK, pt.termFail))
			cfg := cloudprovider.AWSNodeGroupConfig{LaunchTemplateID: "lt-0abc", LaunchTemplateVersion: "1", FleetInstanceReadyTimeout: pt.timeout}
			fx, err := newAWS(0, n+10, 2, 2, cfg, "subnet-a,subnet-b")
			if err != nil {
				rep.Violate(P, "fixture", "cannot build provider: %v", err)
				continue
			}
			fx.C.Fleet = sim.FleetScript{Groups: 1 + int(n%3), ReadyAfter: time.Second, PageSize: 100}
			if strings.HasPrefix(pt.kind, "never-ready") {
				fx.C.Fleet.ReadyAfter = -1
			}
			if pt.kind == "short-answer-with-errors" {
				fx.C.Fleet.WithErrors, fx.C.Fleet.Short = true, 1+n/3
			}
			from := len(fx.J.Events)
			// failures are injected by call ordinal of the API concerned
			attachSeen, termSeen := 0, 0
			fx.F.ByIndex = map[int]sim.FaultKind{}
			hook := &ordinalFaults{attachK: pt.attachK, termK: pt.termFail}
			fx.C.J = fx.J
			err, pv := callWithOrdinalFaults(fx, hook, func() error { return fx.NG.IncreaseSize(n) })
			_ = attachSeen
			_ = termSeen
			desc := fmt.Sprintf("fleet of %d, %s (attach call %d, terminate call %d)", n, pt.kind, pt.attachK, pt.termFail)
			kcls := "first"
			if pt.attachK == batches && batches > 1 {
				kcls = "last"
			} else if pt.attachK > 1 {
				kcls = "middle"
			}
			if pt.attachK == 0 {
				kcls = "none"
			}
			rep.Covered(P, fmt.Sprintf("fail:%s:n%s:k=%s:t=%d", pt.kind, sizeClass(n), kcls, pt.termFail))
			if pv != nil {
				if _, isFatal := pv.(sim.FatalSignal); isFatal {
					rep.Violate(P, "fatal-on-first-failure", "%s: escalator called log.Fatal", desc)
				} else {
					rep.Violate(P, "panic", "%s panicked: %v", desc, pv)
				}
				continue
			}
			if err == nil && pt.kind != "short-answer-with-errors" {
				rep.Violate(P, "failure-not-reported", "%s: IncreaseSize returned nil although capacity did not arrive", desc)
			}
			var acquired []string
			attached, submitted := map[string]int{}, map[string]int{}
			for _, e := range fx.J.Events[from:] {
				switch e.API {
				case sim.AwsFleet:
					if e.Fleet != nil {
						acquired = e.Fleet.Returned
					}
				case sim.AwsAttach:
					if e.Applied {
						for _, id := range e.IDs {
							attached[id]++
						}
					}
				case sim.AwsTermIns:
					if len(e.IDs) > 1000 {
						rep.Violate(P, "terminate-call-over-1000", "%s: TerminateInstances with %d instance ids", desc, len(e.IDs))
					}
					for _, id := range e.IDs {
						submitted[id]++
					}
				}
			}
			neither, both := 0, 0
			for _, id := range acquired {
				a, s := attached[id] > 0, submitted[id] > 0
				if a && s {
					both++
				}
				if !a && !s {
					neither++
				}
			}
			if neither > 0 {
				rep.Violate(P, "instances-leaked", "%s: %d of %d acquired instances were neither attached nor submitted for termination", desc, neither, len(acquired))
			}
			if both > 0 {
				rep.Violate(P, "instances-attached-and-terminated", "%s: %d instances were attached and also submitted for termination", desc, both)
			}
			for id := range submitted {
				if !contains(acquired, id) {
					rep.Violate(P, "foreign-instance-terminated", "%s: %s was submitted for termination but was not acquired by this request", desc, id)
					break
				}
			}
			if evals%23 == 0 {
				rep.Sample(P, fmt.Sprintf("%s: acquired=%d attached=%d submitted=%d err=%v", desc, len(acquired), len(attached), len(submitted), err))
			}
		}
	}
	// three consecutive failures: documented escape hatch (log.Fatalf). Recorded, not judged here.
	if si == 0 {
		cfg := cloudprovider.AWSNodeGroupConfig{LaunchTemplateID: "lt-0abc", LaunchTemplateVersion: "1", FleetInstanceReadyTimeout: 2 * time.Second}
		fx, _ := newAWS(0, 50, 2, 2, cfg, "subnet-a")
		fx.C.Fleet = sim.FleetScript{Groups: 1, ReadyAfter: -1, PageSize: 100}
		fatalAt := 0
		for i := 1; i <= 4 && fatalAt == 0; i++ {
			from := len(fx.J.Events)
			_, pv := call(func() error { return fx.NG.IncreaseSize(3) })
			if _, ok := pv.(sim.FatalSignal); ok {
				fatalAt = i
			}
			// whatever the attempt number, and also when escalator gives up: nothing acquired may be left behind
			var acquired []string
			submitted := map[string]bool{}
			for _, e := range fx.J.Events[from:] {
				if e.API == sim.AwsFleet && e.Fleet != nil {
					acquired = e.Fleet.Returned
				}
				if e.API == sim.AwsTermIns {
					for _, id := range e.IDs {
						submitted[id] = true
					}
				}
			}
			for _, id := range acquired {
				if !submitted[id] {
					rep.Violate(P, "instances-leaked-on-repeated-failure", "consecutive failed fleet scale-up number %d: instance %s was neither attached nor submitted for termination (fatal exit: %v)", i, id, fatalAt == i)
					break
				}
			}
		}
		rep.Covered(P, fmt.Sprintf("consecutive-failures:fatal-at-%d", fatalAt))
		evals++
	}
	return Outcome{Evaluations: evals}
}

func sizeClass(n int64) string {
	switch {
	case n <= 20:
		return "<=20"
	case n <= 100:
		return "21-100"
	case n <= 1000:
		return "101-1000"
	default:
		return ">1000"
	}
}

func contains(xs []string, x string) bool {
	for _, y := range xs {
		if y == x {
			return true
		}
	}
	return false
}

// ordinalFaults fails the k-th AttachInstances / TerminateInstances call.
type ordinalFaults struct {
	attachK, termK int
}

// callWithOrdinalFaults arms per-API ordinal faults through the fault plan: since ordinals of one API
// are not known in advance as global call indexes, the plan is re-armed from the journal as calls arrive.
func callWithOrdinalFaults(fx *awsFixture, h *ordinalFaults, f func() error) (error, interface{}) {
	fx.F.Reset()
	fx.F.ByIndex = map[int]sim.FaultKind{}
	fx.F.Ordinal = map[string]map[int]sim.FaultKind{}
	if h.attachK > 0 {
		fx.F.Ordinal[sim.AwsAttach] = map[int]sim.FaultKind{h.attachK: sim.FValidation}
	}
	if h.termK > 0 {
		fx.F.Ordinal[sim.AwsTermIns] = map[int]sim.FaultKind{h.termK: sim.FServerErr}
	}
	return call(f)
}

// ---- C19 (direct) -------------------------------------------------------------------------------------

func runC19(tier string, seed int64, si, sn int, rep *monitor.Report, note func(string)) Outcome {
	const P = "C19"
	evals := 0
	idx := 0
	for min := int64(0); min <= 5; min++ {
		for extra := int64(0); extra <= 6; extra++ {
			desired := min + extra
			for want := 1; want <= 5; want++ {
				// foreignAt: -1 none, else position of a non-member in the request
				for foreignAt := -1; foreignAt < want; foreignAt++ {
					for failK := 0; failK <= want; failK++ { // 0 = no failure, k = k-th terminate call fails
						idx++
						if idx%sn != si {
							continue
						}
						if int64(want) > desired+1 {
							continue
						}
						evals++
						c19One(rep, min, desired, want, foreignAt, failK)
					}
				}
			}
		}
	}
	// two requests without a refresh in between (what a scan does: force-tainted batch, then the reaper batch):
	// the second must be judged against what the first really removed
	for min := int64(0); min <= 3; min++ {
		for extra := int64(1); extra <= 5; extra++ {
			for first := 1; first <= 3; first++ {
				for failK := 0; failK <= first; failK++ {
					for second := 1; second <= 3; second++ {
						idx++
						if idx%sn != si {
							continue
						}
						desired := min + extra
						if int64(first+second) > desired {
							continue
						}
						evals++
						c19Two(rep, min, desired, first, failK, second)
					}
				}
			}
		}
	}
	// requests naming the same node more than once: every call that is issued lowers the desired capacity if the cloud
	// accepts it, so whatever the list looks like no more than desired - min decrementing calls may be issued, and
	// only for instances backing the given nodes
	for min := int64(0); min <= 3; min++ {
		for extra := int64(0); extra <= 4; extra++ {
			for distinct := 1; distinct <= 3; distinct++ {
				for dups := 1; dups <= 3; dups++ {
					for dupAt := 0; dupAt <= distinct; dupAt++ {
						idx++
						if idx%sn != si {
							continue
						}
						desired := min + extra
						if int64(distinct) > desired {
							continue
						}
						evals++
						c19Dup(rep, min, desired, distinct, dups, dupAt)
					}
				}
			}
		}
	}
	return Outcome{Evaluations: evals}
}

// c19Dup: the first `distinct` members, with the first of them repeated `dups` more times from position dupAt on.
func c19Dup(rep *monitor.Report, min, desired int64, distinct, dups, dupAt int) {
	const P = "C19"
	fx, err := newAWS(min, desired+5, desired, int(desired), cloudprovider.AWSNodeGroupConfig{}, "subnet-a")
	if err != nil {
		return
	}
	req := append([]*v1.Node(nil), fx.Nodes[:distinct]...)
	for k := 0; k < dups; k++ {
		at := dupAt
		if at > len(req) {
			at = len(req)
		}
		req = append(req[:at], append([]*v1.Node{fx.Nodes[0]}, req[at:]...)...)
	}
	backing := map[string]bool{}
	for _, n := range fx.Nodes[:distinct] {
		backing[n.Spec.ProviderID[strings.LastIndex(n.Spec.ProviderID, "/")+1:]] = true
	}
	from := len(fx.J.Events)
	err, pv := call(func() error { return fx.NG.DeleteNodes(req...) })
	issued, accepted := 0, 0
	for _, e := range fx.J.Events[from:] {
		if e.API != sim.AwsTermASG {
			continue
		}
		issued++
		if e.Applied {
			accepted++
		}
		if !backing[e.Target] {
			rep.Violate(P, "terminated-instance-not-requested", "DeleteNodes with a repeated node: %s is not an instance backing the given nodes", e)
		}
		if e.Decrement == nil || !*e.Decrement {
			rep.Violate(P, "terminate-without-decrement", "DeleteNodes with a repeated node: %s", e)
		}
	}
	room := desired - min
	rel := "fits"
	switch {
	case room < int64(distinct):
		rel = "distinct-breaches"
	case room < int64(len(req)):
		rel = "only-length-breaches"
	}
	rep.Covered(P, fmt.Sprintf("delnodes:repeated-node:distinct%d:len%d:%s", distinct, len(req), rel))
	desc := fmt.Sprintf("DeleteNodes(%d entries naming %d distinct members) on min=%d desired=%d", len(req), distinct, min, desired)
	if pv != nil {
		rep.Violate(P, "panic", "%s panicked: %v", desc, pv)
		return
	}
	if int64(issued) > room {
		rep.Violate(P, "more-terminate-calls-than-room", "%s: %d decrementing terminate calls issued (%d accepted) with room for %d (err=%v)", desc, issued, accepted, room, err)
	}
	if fx.ASG.Desired < min {
		rep.Violate(P, "desired-below-minimum", "%s: desired capacity fell to %d", desc, fx.ASG.Desired)
	}
	if int64(len(req)) <= room && int64(distinct) <= room && accepted < distinct && err == nil {
		rep.Violate(P, "accepted-request-not-executed", "%s: returned no error but only %d of %d instances were terminated", desc, accepted, distinct)
	}
}

func c19Two(rep *monitor.Report, min, desired int64, first, failK, second int) {
	const P = "C19"
	fx, err := newAWS(min, desired+5, desired, int(desired), cloudprovider.AWSNodeGroupConfig{}, "subnet-a")
	if err != nil {
		return
	}
	fx.F.Reset()
	fx.F.Ordinal = map[string]map[int]sim.FaultKind{}
	if failK > 0 {
		fx.F.Ordinal[sim.AwsTermASG] = map[int]sim.FaultKind{failK: sim.FThrottle}
	}
	call(func() error { return fx.NG.DeleteNodes(fx.Nodes[:first]...) })
	fx.F.Ordinal = nil
	realDesired := fx.ASG.Desired
	from := len(fx.J.Events)
	req := fx.Nodes[first : first+second]
	err2, pv := call(func() error { return fx.NG.DeleteNodes(req...) })
	calls := 0
	for _, e := range fx.J.Events[from:] {
		if e.API == sim.AwsTermASG {
			calls++
		}
	}
	breach := realDesired <= min || realDesired-int64(second) < min
	rep.Covered(P, fmt.Sprintf("delnodes:second-request:first-failed=%v:breach=%v", failK > 0, breach))
	desc := fmt.Sprintf("second DeleteNodes(%d nodes) after a first request of %d (terminate call %d failed) on min=%d, desired %d -> %d", second, first, failK, min, desired, realDesired)
	if pv != nil {
		rep.Violate(P, "panic", "%s panicked: %v", desc, pv)
		return
	}
	if breach && (err2 == nil || calls != 0) {
		rep.Violate(P, "second-request-breach-not-refused", "%s: err=%v, %d terminate calls; the request breaches the minimum and must be refused as a whole", desc, err2, calls)
	}
	if !breach && (err2 != nil || calls != second) {
		rep.Violate(P, "second-request-wrongly-refused", "%s: err=%v, %d terminate calls", desc, err2, calls)
	}
}

func c19One(rep *monitor.Report, min, desired int64, want, foreignAt, failK int) {
	const P = "C19"
	fx, err := newAWS(min, desired+5, desired, int(desired), cloudprovider.AWSNodeGroupConfig{}, "subnet-a")
	if err != nil {
		rep.Violate(P, "fixture", "cannot build provider: %v", err)
		return
	}
	// request: the first `want` members, with an outsider spliced in at foreignAt
	var req []*v1.Node
	members := 0
	for i := 0; i < want; i++ {
		if i == foreignAt {
			req = append(req, &v1.Node{ObjectMeta: metav1.ObjectMeta{Name: "outsider"}, Spec: v1.NodeSpec{ProviderID: "aws:///us-east-1c/i-outsider"}})
			continue
		}
		if members < len(fx.Nodes) {
			req = append(req, fx.Nodes[members])
			members++
		}
	}
	if len(req) == 0 {
		return
	}
	fx.F.Reset()
	fx.F.Ordinal = map[string]map[int]sim.FaultKind{}
	if failK > 0 {
		fx.F.Ordinal[sim.AwsTermASG] = map[int]sim.FaultKind{failK: sim.FThrottle}
	}
	from := len(fx.J.Events)
	err, pv := call(func() error { return fx.NG.DeleteNodes(req...) })
	var terms []*sim.Event
	for _, e := range fx.J.Events[from:] {
		if e.API == sim.AwsTermASG {
			terms = append(terms, e)
		} else if e.IsWrite() {
			rep.Violate(P, "unexpected-write-in-delete", "DeleteNodes issued %s", e)
		}
	}
	desc := fmt.Sprintf("DeleteNodes(%d nodes, outsider at %d, terminate call %d fails) on min=%d desired=%d", len(req), foreignAt, failK, min, desired)
	breach := desired <= min || desired-int64(len(req)) < min
	sig := fmt.Sprintf("delnodes:breach=%v:foreign=%s:fail=%s:n%d", breach, posClass(foreignAt, len(req)), posClass(failK-1, len(req)), len(req))
	rep.Covered(P, sig)
	if pv != nil {
		rep.Violate(P, "panic", "%s panicked: %v", desc, pv)
		return
	}
	if breach {
		if err == nil || len(terms) != 0 {
			rep.Violate(P, "minimum-breach-not-refused", "%s: err=%v and %d terminate calls; the whole request must be refused", desc, err, len(terms))
		}
		return
	}
	// Calls must go to the members in request order, never past the outsider and never past a failing call. With an
	// outsider in the list the statement leaves it open whether it is noticed when its turn comes (the members before
	// it are terminated first) or before any call is made (nothing is terminated): both end with not-in-group.
	var before []string // members preceding the outsider (all of them when there is none)
	for i, n := range req {
		if i == foreignAt {
			break
		}
		before = append(before, instanceOfPID(n.Spec.ProviderID))
	}
	got := make([]string, len(terms))
	for i, e := range terms {
		got[i] = e.Target
		if e.Decrement == nil || !*e.Decrement {
			rep.Violate(P, "terminate-without-decrement", "%s: %s", desc, e)
		}
	}
	if len(got) > len(before) || strings.Join(got, ",") != strings.Join(before[:len(got)], ",") {
		key := "wrong-instances-terminated"
		if len(got) > len(before) {
			key = "calls-continue-after-stop"
		}
		rep.Violate(P, key, "%s: terminate calls %v, allowed: a prefix of %v", desc, got, before)
		return
	}
	if int64(len(terms)) > desired-min {
		rep.Violate(P, "more-terminations-than-headroom", "%s: %d terminate calls", desc, len(terms))
	}
	_, notInGroup := err.(*cloudprovider.NodeNotInNodeGroup)
	switch {
	case failK > 0 && len(got) >= failK:
		// the failing call was issued: the request ends there with the cloud's error
		if len(got) > failK {
			rep.Violate(P, "calls-continue-after-stop", "%s: terminate calls %v go on after the failed call %d", desc, got, failK)
		}
		if err == nil {
			rep.Violate(P, "cloud-error-swallowed", "%s: returned nil although a terminate call failed", desc)
		}
		if notInGroup {
			rep.Violate(P, "cloud-error-misreported", "%s: a failed terminate call is reported as not-in-group (would stop the controller)", desc)
		}
	case foreignAt >= 0:
		if !notInGroup {
			rep.Violate(P, "outsider-not-reported", "%s: error is %T %v, expected NodeNotInNodeGroup", desc, err, err)
		}
		if len(got) != 0 && len(got) != len(before) {
			rep.Violate(P, "wrong-instances-terminated", "%s: terminate calls %v: neither none (outsider noticed up front) nor all members before it %v", desc, got, before)
		}
		if len(got) == 0 && len(before) > 0 {
			rep.Covered(P, "delnodes:outsider-noticed-before-any-call")
		}
	default:
		if err != nil {
			rep.Violate(P, "clean-delete-failed", "%s: %v", desc, err)
		}
		if len(got) != len(before) {
			rep.Violate(P, "wrong-instances-terminated", "%s: terminate calls %v, expected %v", desc, got, before)
		}
	}
}

func posClass(i, n int) string {
	switch {
	case i < 0:
		return "none"
	case i == 0:
		return "first"
	case i == n-1:
		return "last"
	default:
		return "middle"
	}
}

func instanceOfPID(pid string) string {
	i := strings.LastIndex(pid, "/")
	return pid[i+1:]
}
