package direct

import (
	"fmt"
	"math"
	"math/big"
	"math/rand"
	"time"

	"verifharness/monitor"
	"verifharness/oracle"

	"github.com/atlassian/escalator/pkg/controller"
	"github.com/atlassian/escalator/pkg/k8s"
	"github.com/atlassian/escalator/pkg/k8s/scheduler"
	v1 "k8s.io/api/core/v1"
	"k8s.io/apimachinery/pkg/api/resource"
	metav1 "k8s.io/apimachinery/pkg/apis/meta/v1"
)

func init() {
	runners["C05"] = runC05
	runners["C13"] = runC13
}

func milliQ(m int64) resource.Quantity { return *resource.NewMilliQuantity(m, resource.DecimalSI) }
func byteQ(b int64) resource.Quantity  { return *resource.NewQuantity(b, resource.BinarySI) }

// ---- C05: the scale-up arithmetic on a bounded-exhaustive grid -------------------------------------------

func runC05(tier string, seed int64, si, sn int, rep *monitor.Report, note func(string)) Outcome {
	const P = "C05"
	cpuSizes := []int64{1000, 1900, 2000, 3900, 16000, 96000}
	memSizes := []int64{4 << 30, 7500000000, 16 << 30, 64 << 30, 512 << 30}
	var thresholds []int
	if tier == "thorough" {
		for t := 1; t <= 100; t++ {
			thresholds = append(thresholds, t)
		}
		thresholds = append(thresholds, 150, 200)
	} else {
		thresholds = []int{1, 2, 3, 10, 25, 33, 40, 50, 66, 70, 75, 80, 90, 99, 100, 150, 200}
	}
	maxU, maxK := 40, 6
	if tier == "thorough" {
		maxK = 40
	}
	evals := 0
	idx := 0
	check := func(U int, cpuReq, memReq, cpuNode, memNode int64, t int, bound string, off int64, fromZero bool) {
		evals++
		capCPU, capMem := cpuNode*int64(U), memNode*int64(U)
		cpuPct, memPct, err := controller.VerifCalcPercentUsage(milliQ(cpuReq), byteQ(memReq), milliQ(capCPU), byteQ(capMem), int64(U))
		if err != nil {
			rep.Violate(P, "percent-error", "percent usage failed for U=%d req=(%d,%d) cap=(%d,%d): %v", U, cpuReq, memReq, capCPU, capMem, err)
			return
		}
		ucpu := oracle.Percent(big.NewInt(cpuReq), big.NewInt(maxI(capCPU, 1)))
		umem := oracle.Percent(big.NewInt(memReq), big.NewInt(maxI(capMem, 1)))
		tr := new(big.Rat).SetInt64(int64(t))
		if !fromZero {
			if ucpu.Cmp(tr) <= 0 && umem.Cmp(tr) <= 0 {
				return // not above the threshold: no scale-up is asked for
			}
			if math.Max(cpuPct, memPct) <= float64(t) {
				// the float evaluation does not see the excess: a band question (C06), not a size question
				rep.DC(P, "request one unit above the threshold not visible in float64")
				return
			}
		}
		var cachedCPU, cachedMem resource.Quantity
		if fromZero {
			cachedCPU, cachedMem = milliQ(cpuNode), byteQ(memNode)
		}
		delta, err := controller.VerifCalcScaleUpDelta(U, cpuPct, memPct, milliQ(cpuReq), byteQ(memReq), t, cachedCPU, cachedMem)
		if err != nil {
			rep.Violate(P, "delta-error", "scale-up delta failed for U=%d req=(%d,%d) node=(%d,%d) t=%d: %v", U, cpuReq, memReq, cpuNode, memNode, t, err)
			return
		}
		need, ok := oracle.NodesNeeded(big.NewInt(cpuReq), big.NewInt(memReq), big.NewInt(cpuNode), big.NewInt(memNode), t)
		if !ok {
			return
		}
		min := need - U
		if min < 1 {
			min = 1
		}
		sig := fmt.Sprintf("grid:%s:off%+d:result+%d", bound, off, delta-min)
		if fromZero {
			sig += ":from-zero"
		}
		rep.Covered(P, sig)
		if delta < min && delta >= 1 && oracle.WithinFloatResolution(big.NewInt(cpuReq), big.NewInt(memReq), big.NewInt(cpuNode), big.NewInt(memNode), t, U+delta) {
			// the shortfall is below what float64 can resolve (relative 1e-12): the same tolerance as at the band edges
			rep.DC(P, "insufficient by less than 1e-12 relative (float64 resolution)")
		} else if delta < min {
			rep.Violate(P, "arith-insufficient:"+bound, "U=%d node=(%dm,%dB) threshold=%d%% requests=(%dm,%dB): delta %d, but %d nodes are needed in total (%d more) to sit at or below the threshold", U, cpuNode, memNode, t, cpuReq, memReq, delta, need, min)
		} else if delta > min+1 {
			rep.Violate(P, "arith-excess:"+bound, "U=%d node=(%dm,%dB) threshold=%d%% requests=(%dm,%dB): delta %d, more than one above the %d needed", U, cpuNode, memNode, t, cpuReq, memReq, delta, min)
		}
		if evals%50021 == 0 {
			rep.Sample(P, fmt.Sprintf("U=%d node=(%dm,%dB) t=%d req=(%dm,%dB) -> delta %d (minimum %d)", U, cpuNode, memNode, t, cpuReq, memReq, delta, min))
		}
	}
	for U := 1; U <= maxU; U++ {
		for ci, cpuNode := range cpuSizes {
			memNode := memSizes[ci%len(memSizes)]
			for _, t := range thresholds {
				idx++
				if idx%sn != si {
					continue
				}
				for k := 0; k <= maxK; k++ {
					for _, off := range []int64{-1, 0, 1} {
						// CPU-bound: total cpu request on / next to the boundary where U+k nodes are exactly enough
						rb := int64(U+k) * int64(t) * cpuNode / 100
						check(U, rb+off, memNode*int64(U)*int64(t)/400, cpuNode, memNode, t, "cpu", off, false)
						// memory-bound
						mb := new(big.Int).Mul(big.NewInt(int64(U+k)*int64(t)), big.NewInt(memNode))
						mb.Div(mb, big.NewInt(100))
						check(U, cpuNode*int64(U)*int64(t)/400, mb.Int64()+off, cpuNode, memNode, t, "mem", off, false)
					}
				}
				// from zero, with the cached node size
				for k := 1; k <= 3; k++ {
					for _, off := range []int64{-1, 0, 1} {
						rb := int64(k) * int64(t) * cpuNode / 100
						if rb+off > 0 {
							check(0, rb+off, 1<<20, cpuNode, memNode, t, "cpu", off, true)
						}
					}
				}
			}
		}
	}
	// random realistic sizes up to 1000 nodes x 512 GiB
	r := rand.New(rand.NewSource(seed*1000 + int64(si)))
	n := 20000
	if tier == "thorough" {
		n = 400000
	}
	for i := 0; i < n/sn; i++ {
		U := 1 + r.Intn(1000)
		cpuNode := cpuSizes[r.Intn(len(cpuSizes))]
		memNode := memSizes[r.Intn(len(memSizes))]
		t := 1 + r.Intn(100)
		k := r.Intn(50)
		off := int64(r.Intn(3) - 1)
		if r.Intn(2) == 0 {
			rb := int64(U+k) * int64(t) * cpuNode / 100
			check(U, rb+off, 1<<30, cpuNode, memNode, t, "cpu-large", off, false)
		} else {
			mb := new(big.Int).Mul(big.NewInt(int64(U+k)*int64(t)), big.NewInt(memNode))
			mb.Div(mb, big.NewInt(100))
			check(U, 1000, mb.Int64()+off, cpuNode, memNode, t, "mem-large", off, false)
		}
	}
	// no cached size: exactly one node
	if si == 0 {
		cpuPct, memPct, _ := controller.VerifCalcPercentUsage(milliQ(5000), byteQ(1<<30), milliQ(0), byteQ(0), 0)
		d, err := controller.VerifCalcScaleUpDelta(0, cpuPct, memPct, milliQ(5000), byteQ(1<<30), 70, resource.Quantity{}, resource.Quantity{})
		evals++
		rep.Covered(P, "grid:from-zero:no-cached-size")
		if err != nil || d != 1 {
			rep.Violate(P, "from-zero-without-size", "scale-up from zero without a cached node size gives %d (%v), expected exactly 1", d, err)
		}
	}
	return Outcome{Evaluations: evals}
}

func maxI(a, b int64) int64 {
	if a > b {
		return a
	}
	return b
}

// ---- C13: the calculators on generated multisets, under permutation -----------------------------------------

var cpuNotations = []string{"0", "1m", "250m", "1", "1.5", "0.5", "2", "10", "100u", "1n", "2500m", "0.001", "1e3", "5e-1"}
var memNotations = []string{"0", "1", "128Mi", "1Gi", "1.5Gi", "500M", "1G", "1000Ki", "1500m", "0.5", "1e9", "12345678", "3Ti", "100k"}

func genList(r *rand.Rand) v1.ResourceList {
	l := v1.ResourceList{}
	switch r.Intn(6) {
	case 0:
		return nil
	case 1:
		l[v1.ResourceCPU] = resource.MustParse(cpuNotations[r.Intn(len(cpuNotations))])
	case 2:
		l[v1.ResourceMemory] = resource.MustParse(memNotations[r.Intn(len(memNotations))])
	default:
		l[v1.ResourceCPU] = resource.MustParse(cpuNotations[r.Intn(len(cpuNotations))])
		l[v1.ResourceMemory] = resource.MustParse(memNotations[r.Intn(len(memNotations))])
		if r.Intn(5) == 0 {
			l[v1.ResourceEphemeralStorage] = resource.MustParse("1Gi")
		}
	}
	return l
}

func genPod(r *rand.Rand, i int) *v1.Pod {
	p := &v1.Pod{ObjectMeta: metav1.ObjectMeta{Name: fmt.Sprintf("p%d", i)}}
	for c := r.Intn(5); c > 0; c-- {
		p.Spec.Containers = append(p.Spec.Containers, v1.Container{Resources: v1.ResourceRequirements{Requests: genList(r), Limits: genList(r)}})
	}
	for c := r.Intn(4); c > 0; c-- {
		ic := v1.Container{Resources: v1.ResourceRequirements{Requests: genList(r)}}
		if r.Intn(5) == 0 {
			// a restartable ("sidecar") init container: the definition makes no exception for it
			always := v1.ContainerRestartPolicyAlways
			ic.RestartPolicy = &always
		}
		p.Spec.InitContainers = append(p.Spec.InitContainers, ic)
	}
	if r.Intn(3) == 0 {
		p.Spec.Overhead = genList(r)
	}
	if r.Intn(6) == 0 {
		// pod-level resources (a newer API field): not part of the definition
		p.Spec.Resources = &v1.ResourceRequirements{Requests: genList(r), Limits: genList(r)}
	}
	if r.Intn(4) == 0 {
		p.Status.Phase = v1.PodPending
	} else {
		p.Status.Phase = v1.PodRunning
		p.Spec.NodeName = fmt.Sprintf("n%d", r.Intn(4))
	}
	// status and metadata that the definition does not mention: every listed pod counts, whatever its phase,
	// whether it is being deleted, whichever conditions, finalizers, priority or owner it has
	if r.Intn(4) == 0 {
		p.Status.Phase = []v1.PodPhase{v1.PodPending, v1.PodRunning, v1.PodUnknown, "", v1.PodSucceeded, v1.PodFailed}[r.Intn(6)]
		if r.Intn(2) == 0 {
			p.Spec.NodeName = fmt.Sprintf("n%d", r.Intn(4))
		}
	}
	if r.Intn(5) == 0 {
		t := metav1.NewTime(time.Unix(1700000000+int64(r.Intn(100000)), 0))
		grace := int64(r.Intn(60))
		p.DeletionTimestamp, p.DeletionGracePeriodSeconds = &t, &grace
		if r.Intn(2) == 0 {
			p.Finalizers = []string{"example.com/hold"}
		}
	}
	if r.Intn(5) == 0 {
		st := []v1.ConditionStatus{v1.ConditionTrue, v1.ConditionFalse, v1.ConditionUnknown}[r.Intn(3)]
		p.Status.Conditions = append(p.Status.Conditions, v1.PodCondition{Type: v1.PodScheduled, Status: st})
		if r.Intn(2) == 0 {
			p.Status.Conditions = append(p.Status.Conditions, v1.PodCondition{Type: v1.PodReady, Status: v1.ConditionFalse})
		}
	}
	if r.Intn(6) == 0 {
		prio := int32(r.Intn(2000000) - 1000000)
		p.Spec.Priority = &prio
		p.OwnerReferences = []metav1.OwnerReference{{Kind: []string{"Job", "ReplicaSet", "StatefulSet"}[r.Intn(3)], Name: "o"}}
	}
	return p
}

func genNode(r *rand.Rand, i int) *v1.Node {
	n := &v1.Node{ObjectMeta: metav1.ObjectMeta{Name: fmt.Sprintf("n%d", i)}}
	if r.Intn(6) != 0 {
		n.Status.Allocatable = genList(r)
	}
	return n
}

func permutations(n int, f func(p []int)) {
	p := make([]int, n)
	for i := range p {
		p[i] = i
	}
	var rec func(k int)
	rec = func(k int) {
		if k == n {
			f(p)
			return
		}
		for i := k; i < n; i++ {
			p[k], p[i] = p[i], p[k]
			rec(k + 1)
			p[k], p[i] = p[i], p[k]
		}
	}
	rec(0)
}

func runC13(tier string, seed int64, si, sn int, rep *monitor.Report, note func(string)) Outcome {
	const P = "C13"
	r := rand.New(rand.NewSource(seed*7717 + int64(si)*31 + 1))
	n := 6000
	if tier == "thorough" {
		n = 120000
	}
	evals := 0
	for it := 0; it < n/sn; it++ {
		np, nn := r.Intn(7), r.Intn(6)
		if it%10 == 0 {
			np, nn = 5+r.Intn(60), 5+r.Intn(40)
		}
		var pods []*v1.Pod
		var nodes []*v1.Node
		for i := 0; i < np; i++ {
			pods = append(pods, genPod(r, i))
		}
		for i := 0; i < nn; i++ {
			nodes = append(nodes, genNode(r, i))
		}
		// sometimes a node is filled exactly: running, scheduled pods requesting all of its allocatable cpu and memory
		if nn > 0 && it%3 == 0 {
			n := nodes[r.Intn(nn)]
			cpu, mem := oracle.NodeAlloc(n)
			if cpu.Sign() > 0 && mem.Sign() > 0 && cpu.IsInt64() && mem.IsInt64() {
				parts := int64(1 + r.Intn(2))
				for k := int64(0); k < parts; k++ {
					c, m := cpu.Int64()/parts, mem.Int64()/parts
					if k == parts-1 {
						c, m = cpu.Int64()-c*(parts-1), mem.Int64()-m*(parts-1)
					}
					p := &v1.Pod{ObjectMeta: metav1.ObjectMeta{Name: fmt.Sprintf("full%d-%d", it, k)},
						Spec: v1.PodSpec{NodeName: n.Name, Containers: []v1.Container{{Resources: v1.ResourceRequirements{Requests: v1.ResourceList{
							v1.ResourceCPU: milliQ(c), v1.ResourceMemory: byteQ(m)}}}}},
						Status: v1.PodStatus{Phase: v1.PodRunning, Conditions: []v1.PodCondition{{Type: v1.PodScheduled, Status: v1.ConditionTrue}}}}
					pods = append(pods, p)
					np++
				}
			}
		}
		evals++
		// per pod
		shape := ""
		for _, p := range pods {
			got := scheduler.ComputePodResourceRequest(p)
			wc, wm := oracle.PodRequest(p)
			if big.NewInt(got.MilliCPU).Cmp(wc) != 0 || big.NewInt(got.Memory).Cmp(wm) != 0 {
				rep.Violate(P, "pod-request-mismatch", "pod with %d containers, %d init containers, overhead=%v: computed (%dm, %dB), max(sum, largest init)+overhead is (%vm, %vB)",
					len(p.Spec.Containers), len(p.Spec.InitContainers), p.Spec.Overhead != nil, got.MilliCPU, got.Memory, wc, wm)
			}
			ic, _ := initMax(p)
			sc, _ := sumContainers(p)
			switch {
			case len(p.Spec.InitContainers) > 0 && ic.Cmp(sc) > 0:
				shape += "I"
			case len(p.Spec.InitContainers) > 0:
				shape += "i"
			}
			if p.Spec.Overhead != nil {
				shape += "o"
			}
			if p.DeletionTimestamp != nil {
				rep.Covered(P, "calc:pod-being-deleted:phase="+string(p.Status.Phase))
			}
			if p.Spec.Resources != nil && len(p.Spec.Resources.Requests) > 0 {
				rep.Covered(P, "calc:pod-with-pod-level-requests")
			}
			for _, ic := range p.Spec.InitContainers {
				if ic.RestartPolicy != nil && len(ic.Resources.Requests) > 0 {
					rep.Covered(P, "calc:pod-with-restartable-init-container")
					break
				}
			}
			if p.Status.Phase != v1.PodRunning && p.Status.Phase != v1.PodPending {
				rep.Covered(P, "calc:pod-phase="+string(p.Status.Phase))
			}
		}
		wantC, wantM := oracle.PodsRequest(pods)
		wantCapC, wantCapM := oracle.NodesCapacity(nodes)
		checkTotals := func(ps []*v1.Pod, ns []*v1.Node, what string) {
			u, err := k8s.CalculatePodsRequestedUsage(ps)
			if err != nil {
				rep.Violate(P, "requests-error", "CalculatePodsRequestedUsage failed: %v", err)
				return
			}
			if big.NewInt(u.Total.MilliCPU).Cmp(wantC) != 0 || big.NewInt(u.Total.Memory).Cmp(wantM) != 0 {
				rep.Violate(P, "requests-total-mismatch:"+what, "%d pods (%s): total (%dm, %dB), exact sum is (%vm, %vB)", len(ps), what, u.Total.MilliCPU, u.Total.Memory, wantC, wantM)
			}
			c, err := k8s.CalculateNodesCapacity(ns, ps)
			if err != nil {
				rep.Violate(P, "capacity-error", "CalculateNodesCapacity failed: %v", err)
				return
			}
			if big.NewInt(c.Total.MilliCPU).Cmp(wantCapC) != 0 || big.NewInt(c.Total.Memory).Cmp(wantCapM) != 0 {
				rep.Violate(P, "capacity-total-mismatch:"+what, "%d nodes (%s): capacity (%dm, %dB), exact sum of allocatable is (%vm, %vB)", len(ns), what, c.Total.MilliCPU, c.Total.Memory, wantCapC, wantCapM)
			}
		}
		checkTotals(pods, nodes, "as-listed")
		perms := 0
		if np <= 5 && np > 1 {
			permutations(np, func(p []int) {
				ps := make([]*v1.Pod, np)
				for i, j := range p {
					ps[i] = pods[j]
				}
				perms++
				checkTotals(ps, nodes, "pods-permuted")
			})
		} else if np > 5 {
			for k := 0; k < 4; k++ {
				ps := append([]*v1.Pod(nil), pods...)
				r.Shuffle(len(ps), func(i, j int) { ps[i], ps[j] = ps[j], ps[i] })
				perms++
				checkTotals(ps, nodes, "pods-shuffled")
			}
		}
		if nn <= 5 && nn > 1 {
			permutations(nn, func(p []int) {
				ns := make([]*v1.Node, nn)
				for i, j := range p {
					ns[i] = nodes[j]
				}
				perms++
				checkTotals(pods, ns, "nodes-permuted")
			})
		}
		// percent
		if wantCapC.Sign() > 0 && wantCapM.Sign() > 0 && wantC.IsInt64() && wantM.IsInt64() && wantCapC.IsInt64() && wantCapM.IsInt64() {
			cp, mp, err := controller.VerifCalcPercentUsage(milliQ(wantC.Int64()), byteQ(wantM.Int64()), milliQ(wantCapC.Int64()), byteQ(wantCapM.Int64()), int64(nn))
			wc, _ := oracle.Percent(wantC, wantCapC).Float64()
			wm, _ := oracle.Percent(wantM, wantCapM).Float64()
			if err != nil || relErr(cp, wc) > 1e-12 || relErr(mp, wm) > 1e-12 {
				rep.Violate(P, "percent-mismatch", "percent usage (%v, %v, %v) for req=(%v,%v) cap=(%v,%v); exact is (%v, %v)", cp, mp, err, wantC, wantM, wantCapC, wantCapM, wc, wm)
			}
		}
		if len(shape) > 6 {
			shape = shape[:6]
		}
		rep.Covered(P, fmt.Sprintf("calc:pods%s:nodes%s:perms%s:%s", cnt(np), cnt(nn), cnt(perms), shape))
		if evals%997 == 0 {
			rep.Sample(P, fmt.Sprintf("%d pods, %d nodes, %d permutations: requests (%vm, %vB), capacity (%vm, %vB)", np, nn, perms, wantC, wantM, wantCapC, wantCapM))
		}
	}
	// large clusters: totals up to 1000 nodes x 512 GiB, requests up to three times the capacity
	big1 := 3000
	if tier == "thorough" {
		big1 = 60000
	}
	for it := 0; it < big1/sn; it++ {
		U := int64(1 + r.Intn(1000))
		cpuNode := []int64{1000, 2000, 16000, 96000}[r.Intn(4)]
		memNode := []int64{4 << 30, 64 << 30, 512 << 30}[r.Intn(3)]
		capC, capM := U*cpuNode, U*memNode
		reqC := int64(r.Float64() * 3 * float64(capC))
		reqM := int64(r.Float64() * 3 * float64(capM))
		evals++
		cp, mp, err := controller.VerifCalcPercentUsage(milliQ(reqC), byteQ(reqM), milliQ(capC), byteQ(capM), U)
		wc, _ := oracle.Percent(big.NewInt(reqC), big.NewInt(capC)).Float64()
		wm, _ := oracle.Percent(big.NewInt(reqM), big.NewInt(capM)).Float64()
		sz := "mem<64TiB"
		if reqM > 64<<40 {
			sz = "mem>64TiB"
		}
		rep.Covered(P, "calc:large:"+sz)
		if err != nil || relErr(cp, wc) > 1e-12 || relErr(mp, wm) > 1e-12 {
			rep.Violate(P, "percent-mismatch-large", "percent usage (%v, %v, %v) for req=(%dm,%dB) cap=(%dm,%dB); exact is (%v, %v)", cp, mp, err, reqC, reqM, capC, capM, wc, wm)
		}
	}
	return Outcome{Evaluations: evals}
}

func cnt(n int) string {
	switch {
	case n == 0:
		return "0"
	case n == 1:
		return "1"
	case n <= 5:
		return "2-5"
	case n <= 24:
		return "6-24"
	default:
		return ">24"
	}
}

func relErr(a, b float64) float64 {
	d := math.Abs(a - b)
	m := math.Max(math.Abs(a), math.Abs(b))
	if m == 0 {
		return 0
	}
	return d / m
}

func sumContainers(p *v1.Pod) (*big.Int, *big.Int) {
	q := &v1.Pod{Spec: v1.PodSpec{Containers: p.Spec.Containers}}
	return oracle.PodRequest(q)
}

func initMax(p *v1.Pod) (*big.Int, *big.Int) {
	q := &v1.Pod{Spec: v1.PodSpec{InitContainers: p.Spec.InitContainers}}
	return oracle.PodRequest(q)
}
