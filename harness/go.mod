module verifharness

go 1.23.0

require github.com/atlassian/escalator v0.0.0

replace github.com/atlassian/escalator => /repo

require (
	github.com/alecthomas/kingpin/v2 v2.4.0
	github.com/aws/aws-sdk-go v1.55.6
	github.com/google/uuid v1.6.0
	github.com/pkg/errors v0.9.1
	github.com/prometheus/client_golang v1.21.1
	github.com/prometheus/client_model v0.6.1
	github.com/sirupsen/logrus v1.9.3
	github.com/stephanos/clock v0.0.0-20161224195152-e4ec0ab5053e
	github.com/stretchr/testify v1.10.0
	gopkg.in/evanphx/json-patch.v4 v4.12.0
	k8s.io/api v0.32.3
	k8s.io/apimachinery v0.32.3
	k8s.io/client-go v0.32.3
	k8s.io/klog/v2 v2.130.1
)

require (
	github.com/101loops/bdd v0.0.0-20161224202746-3e71f58e2cc3 // indirect
	github.com/alecthomas/units v0.0.0-20240927000941-0f3dac36c52b // indirect
	github.com/beorn7/perks v1.0.1 // indirect
	github.com/cespare/xxhash/v2 v2.3.0 // indirect
	github.com/davecgh/go-spew v1.1.2-0.20180830191138-d8f796af33cc // indirect
	github.com/emicklei/go-restful/v3 v3.12.2 // indirect
	github.com/fxamacker/cbor/v2 v2.7.0 // indirect
	github.com/go-logr/logr v1.4.2 // indirect
	github.com/go-openapi/jsonpointer v0.21.1 // indirect
	github.com/go-openapi/jsonreference v0.21.0 // indirect
	github.com/go-openapi/swag v0.23.1 // indirect
	github.com/gogo/protobuf v1.3.2 // indirect
	github.com/golang/protobuf v1.5.4 // indirect
	github.com/google/gnostic-models v0.6.9 // indirect
	github.com/google/go-cmp v0.7.0 // indirect
	github.com/google/gofuzz v1.2.0 // indirect
	github.com/jmespath/go-jmespath v0.4.0 // indirect
	github.com/josharian/intern v1.0.0 // indirect
	github.com/json-iterator/go v1.1.12 // indirect
	github.com/klauspost/compress v1.18.0 // indirect
	github.com/mailru/easyjson v0.9.0 // indirect
	github.com/modern-go/concurrent v0.0.0-20180306012644-bacd9c7ef1dd // indirect
	github.com/modern-go/reflect2 v1.0.2 // indirect
	github.com/munnerz/goautoneg v0.0.0-20191010083416-a7dc8b61c822 // indirect
	github.com/onsi/ginkgo v1.16.5 // indirect
	github.com/pmezard/go-difflib v1.0.1-0.20181226105442-5d4384ee4fb2 // indirect
	github.com/prometheus/common v0.63.0 // indirect
	github.com/prometheus/procfs v0.16.0 // indirect
	github.com/spf13/pflag v1.0.6 // indirect
	github.com/x448/float16 v0.8.4 // indirect
	github.com/xhit/go-str2duration/v2 v2.1.0 // indirect
	golang.org/x/net v0.37.0 // indirect
	golang.org/x/oauth2 v0.28.0 // indirect
	golang.org/x/sys v0.31.0 // indirect
	golang.org/x/term v0.30.0 // indirect
	golang.org/x/text v0.23.0 // indirect
	golang.org/x/time v0.11.0 // indirect
	google.golang.org/protobuf v1.36.6 // indirect
	gopkg.in/inf.v0 v0.9.1 // indirect
	gopkg.in/yaml.v3 v3.0.1 // indirect
	k8s.io/kube-openapi v0.0.0-20250318190949-c8a335a9a2ff // indirect
	k8s.io/utils v0.0.0-20250321185631-1f6e0b77f77e // indirect
	sigs.k8s.io/json v0.0.0-20241014173422-cfa47c3a1cc8 // indirect
	sigs.k8s.io/randfill v1.0.0 // indirect
	sigs.k8s.io/structured-merge-diff/v4 v4.6.0 // indirect
	sigs.k8s.io/yaml v1.4.0 // indirect
)
