package sim

import (
	"encoding/json"
	"errors"
	"fmt"
	"math/rand"
	"sort"
	"strconv"

	jsonpatch "gopkg.in/evanphx/json-patch.v4"
	v1 "k8s.io/api/core/v1"
	"k8s.io/apimachinery/pkg/api/equality"
	apierrors "k8s.io/apimachinery/pkg/api/errors"
	"k8s.io/apimachinery/pkg/labels"
	"k8s.io/apimachinery/pkg/runtime"
	"k8s.io/apimachinery/pkg/runtime/schema"
	"k8s.io/apimachinery/pkg/types"
	"k8s.io/apimachinery/pkg/util/strategicpatch"
	"k8s.io/client-go/kubernetes/fake"
	v1lister "k8s.io/client-go/listers/core/v1"
	core "k8s.io/client-go/testing"
)

// Cluster is the simulated API server state plus the client and listers
// escalator is given.
type Cluster struct {
	Nodes map[string]*v1.Node
	Pods  map[string]*v1.Pod // key namespace/name
	rv    int

	J      *Journal
	Faults *FaultPlan
	Client *fake.Clientset

	// what the listers serve: a deep-copied snapshot taken before the scan
	View     *View
	PrevView *View

	// world hook fired just before a k8s GET is answered (used to change an
	// object between the snapshot and escalator's fetch-latest)
	BeforeGet func(name string)
	// world hook fired when a node update arrives, before it is compared with the stored object
	// (another writer changing the node between escalator's read and its write)
	BeforeUpdate func(name string)
}

// View is the cluster as a scan can see it through the listers.
type View struct {
	Nodes []*v1.Node
	Pods  []*v1.Pod
	// pristine copies to detect mutation of lister-owned objects
	nodeCopies []*v1.Node
	podCopies  []*v1.Pod
	TakenAt    int64
	Stale      bool
}

func PodKey(p *v1.Pod) string { return p.Namespace + "/" + p.Name }

func NewCluster(j *Journal) *Cluster {
	c := &Cluster{Nodes: map[string]*v1.Node{}, Pods: map[string]*v1.Pod{}, J: j, Faults: &FaultPlan{}}
	c.Client = &fake.Clientset{}
	c.Client.AddReactor("*", "*", c.react)
	return c
}

func (c *Cluster) nextRV() string { c.rv++; return strconv.Itoa(c.rv) }

// PutNode stores a node as the world (not escalator) would.
func (c *Cluster) PutNode(n *v1.Node) {
	n = n.DeepCopy()
	n.ResourceVersion = c.nextRV()
	c.Nodes[n.Name] = n
}

func (c *Cluster) PutPod(p *v1.Pod) {
	p = p.DeepCopy()
	p.ResourceVersion = c.nextRV()
	c.Pods[PodKey(p)] = p
}

func (c *Cluster) DeleteNodeObj(name string) { delete(c.Nodes, name) }
func (c *Cluster) DeletePodObj(key string)   { delete(c.Pods, key) }

// MutateNode applies f to the stored node (world-side change).
func (c *Cluster) MutateNode(name string, f func(n *v1.Node)) bool {
	n, ok := c.Nodes[name]
	if !ok {
		return false
	}
	f(n)
	n.ResourceVersion = c.nextRV()
	return true
}

func (c *Cluster) SortedNodeNames() []string {
	names := make([]string, 0, len(c.Nodes))
	for k := range c.Nodes {
		names = append(names, k)
	}
	sort.Strings(names)
	return names
}

func (c *Cluster) SortedPodKeys() []string {
	keys := make([]string, 0, len(c.Pods))
	for k := range c.Pods {
		keys = append(keys, k)
	}
	sort.Strings(keys)
	return keys
}

// Snapshot deep-copies the store into a new view, in an order drawn from rng.
func (c *Cluster) Snapshot(rng *rand.Rand) *View {
	v := &View{}
	for _, k := range c.SortedNodeNames() {
		v.Nodes = append(v.Nodes, c.Nodes[k].DeepCopy())
	}
	for _, k := range c.SortedPodKeys() {
		v.Pods = append(v.Pods, c.Pods[k].DeepCopy())
	}
	if rng != nil {
		rng.Shuffle(len(v.Nodes), func(i, j int) { v.Nodes[i], v.Nodes[j] = v.Nodes[j], v.Nodes[i] })
		rng.Shuffle(len(v.Pods), func(i, j int) { v.Pods[i], v.Pods[j] = v.Pods[j], v.Pods[i] })
	}
	v.seal()
	return v
}

func (v *View) seal() {
	v.nodeCopies = v.nodeCopies[:0]
	v.podCopies = v.podCopies[:0]
	for _, n := range v.Nodes {
		v.nodeCopies = append(v.nodeCopies, n.DeepCopy())
	}
	for _, p := range v.Pods {
		v.podCopies = append(v.podCopies, p.DeepCopy())
	}
}

// Mutated lists the lister-owned objects that no longer equal their pristine copy.
func (v *View) Mutated() []string {
	var out []string
	for i, n := range v.Nodes {
		if !nodeEqual(n, v.nodeCopies[i]) {
			out = append(out, "node/"+v.nodeCopies[i].Name)
		}
	}
	for i, p := range v.Pods {
		if !podEqual(p, v.podCopies[i]) {
			out = append(out, "pod/"+PodKey(v.podCopies[i]))
		}
	}
	return out
}

// Pristine returns the copy of node i taken when the view was sealed.
func (v *View) PristineNodes() []*v1.Node { return v.nodeCopies }
func (v *View) PristinePods() []*v1.Pod   { return v.podCopies }

func nodeEqual(a, b *v1.Node) bool {
	ab, _ := a.Marshal()
	bb, _ := b.Marshal()
	return string(ab) == string(bb)
}

func podEqual(a, b *v1.Pod) bool {
	ab, _ := a.Marshal()
	bb, _ := b.Marshal()
	return string(ab) == string(bb)
}

// ---- client reactor -------------------------------------------------------

func (c *Cluster) react(action core.Action) (bool, runtime.Object, error) {
	res := action.GetResource().Resource
	verb := action.GetVerb()
	if res == "nodes" && action.GetSubresource() == "" {
		switch verb {
		case "get":
			if a, ok := action.(core.GetAction); ok {
				return c.getNode(a.GetName())
			}
		case "update":
			if a, ok := action.(core.UpdateAction); ok {
				if n, ok := a.GetObject().(*v1.Node); ok {
					return c.updateNode(n)
				}
			}
		case "delete":
			if a, ok := action.(core.DeleteAction); ok {
				return c.deleteNode(a.GetName())
			}
		case "patch":
			if a, ok := action.(core.PatchAction); ok {
				return c.patchNode(a.GetName(), a.GetPatchType(), a.GetPatch())
			}
		case "list":
			// a direct (uncached) list: answered from the store
			c.J.Add(&Event{API: K8sGet, Target: "", Resource: "nodes", Verb: "list", Count: len(c.Nodes)})
			out := &v1.NodeList{}
			for _, name := range c.SortedNodeNames() {
				out.Items = append(out.Items, *c.Nodes[name].DeepCopy())
			}
			return true, out, nil
		}
	}
	if res == "pods" && action.GetSubresource() == "" {
		switch verb {
		case "list":
			c.J.Add(&Event{API: K8sGet, Target: "", Resource: "pods", Verb: "list", Count: len(c.Pods)})
			out := &v1.PodList{}
			for _, k := range c.SortedPodKeys() {
				if ns := action.GetNamespace(); ns == "" || ns == c.Pods[k].Namespace {
					out.Items = append(out.Items, *c.Pods[k].DeepCopy())
				}
			}
			return true, out, nil
		case "get":
			if a, ok := action.(core.GetAction); ok {
				c.J.Add(&Event{API: K8sGet, Target: a.GetName(), Resource: "pods", Verb: "get"})
				for _, k := range c.SortedPodKeys() {
					if p := c.Pods[k]; p.Name == a.GetName() && p.Namespace == action.GetNamespace() {
						return true, p.DeepCopy(), nil
					}
				}
				return true, nil, apierrors.NewNotFound(schema.GroupResource{Resource: "pods"}, a.GetName())
			}
		}
	}
	if res == "events" && (verb == "create" || verb == "patch" || verb == "update") {
		// diagnostics: accepted and dropped
		c.J.Add(&Event{API: K8sGet, Target: "", Resource: "events", Verb: verb})
		if a, ok := action.(core.CreateAction); ok {
			return true, a.GetObject(), nil
		}
		return true, &v1.Event{}, nil
	}
	// anything else is not something the simulated API server models
	name := ""
	if g, ok := action.(interface{ GetName() string }); ok {
		name = g.GetName()
	}
	ev := c.J.Add(&Event{API: K8sOther, Target: name, Resource: res, Verb: verb,
		Note: fmt.Sprintf("unexpected kubernetes call %s %s/%s", verb, res, action.GetSubresource())})
	ev.Err = "unsupported"
	return true, nil, apierrors.NewMethodNotSupported(schema.GroupResource{Resource: res}, verb)
}

func (c *Cluster) getNode(name string) (bool, runtime.Object, error) {
	ev := c.J.Add(&Event{API: K8sGet, Target: name, Resource: "nodes", Verb: "get"})
	if k := c.Faults.next(K8sGet, name); k != FNone {
		err := k8sErr(k, "nodes", name)
		ev.Err, ev.Injected = err.Error(), true
		return true, nil, err
	}
	if c.BeforeGet != nil {
		c.BeforeGet(name)
	}
	n, ok := c.Nodes[name]
	if !ok {
		err := apierrors.NewNotFound(schema.GroupResource{Resource: "nodes"}, name)
		ev.Err = err.Error()
		return true, nil, err
	}
	ev.Before = n.DeepCopy()
	return true, n.DeepCopy(), nil
}

func (c *Cluster) updateNode(sent *v1.Node) (bool, runtime.Object, error) {
	ev := c.J.Add(&Event{API: K8sUpdate, Target: sent.Name, Resource: "nodes", Verb: "update", Sent: sent.DeepCopy()})
	if cur, ok := c.Nodes[sent.Name]; ok {
		ev.Before = cur.DeepCopy()
	}
	k := c.Faults.next(K8sUpdate, sent.Name)
	if k != FNone && k != FAfterEffect {
		err := k8sErr(k, "nodes", sent.Name)
		ev.Err, ev.Injected = err.Error(), true
		return true, nil, err
	}
	if c.BeforeUpdate != nil {
		c.BeforeUpdate(sent.Name)
		if cur2, ok := c.Nodes[sent.Name]; ok {
			ev.Before = cur2.DeepCopy()
		}
	}
	cur, ok := c.Nodes[sent.Name]
	if !ok {
		err := apierrors.NewNotFound(schema.GroupResource{Resource: "nodes"}, sent.Name)
		ev.Err = err.Error()
		return true, nil, err
	}
	if sent.ResourceVersion != "" && sent.ResourceVersion != cur.ResourceVersion {
		err := apierrors.NewConflict(schema.GroupResource{Resource: "nodes"}, sent.Name,
			errors.New("the object has been modified; please apply your changes to the latest version and try again"))
		ev.Err = err.Error()
		return true, nil, err
	}
	stored := sent.DeepCopy()
	stored.ResourceVersion = c.nextRV()
	c.Nodes[sent.Name] = stored
	ev.Applied = true
	if k == FAfterEffect {
		err := k8sErr(FServerErr, "nodes", sent.Name)
		ev.Err, ev.Injected = err.Error(), true
		return true, nil, err
	}
	return true, stored.DeepCopy(), nil
}

// patchNode applies a JSON, merge or strategic-merge patch to the stored node and journals it as the update it
// amounts to (body sent = stored object with the patch applied), so that every monitor of node writes sees it.
func (c *Cluster) patchNode(name string, pt types.PatchType, patch []byte) (bool, runtime.Object, error) {
	apply := func(cur *v1.Node) (*v1.Node, error) {
		old, _ := json.Marshal(cur)
		var merged []byte
		var err error
		switch pt {
		case types.JSONPatchType:
			var jp jsonpatch.Patch
			if jp, err = jsonpatch.DecodePatch(patch); err == nil {
				merged, err = jp.Apply(old)
			}
		case types.MergePatchType:
			merged, err = jsonpatch.MergePatch(old, patch)
		case types.StrategicMergePatchType:
			merged, err = strategicpatch.StrategicMergePatch(old, patch, &v1.Node{})
		default:
			err = fmt.Errorf("patch type %s is not modelled", pt)
		}
		if err != nil {
			return nil, err
		}
		patched := &v1.Node{}
		if err := json.Unmarshal(merged, patched); err != nil {
			return nil, err
		}
		// The JSON round trip alone changes how some values are represented (zero times, empty maps). Carry over to
		// a copy of the stored object only what the patch really changed; if it changed anything beyond the usual
		// fields, fall back to the round-tripped object.
		rt := &v1.Node{}
		if err := json.Unmarshal(old, rt); err != nil {
			return nil, err
		}
		out := cur.DeepCopy()
		carry := func(dst, a, b *v1.Node) {
			if !equality.Semantic.DeepEqual(a.Spec.Taints, b.Spec.Taints) {
				dst.Spec.Taints = b.Spec.Taints
			}
			if !equality.Semantic.DeepEqual(a.Labels, b.Labels) {
				dst.Labels = b.Labels
			}
			if !equality.Semantic.DeepEqual(a.Annotations, b.Annotations) {
				dst.Annotations = b.Annotations
			}
			if !equality.Semantic.DeepEqual(a.Finalizers, b.Finalizers) {
				dst.Finalizers = b.Finalizers
			}
			dst.Spec.Unschedulable = b.Spec.Unschedulable
			dst.Spec.ProviderID = b.Spec.ProviderID
			dst.ResourceVersion = b.ResourceVersion
		}
		carry(out, rt, patched)
		probe := rt.DeepCopy()
		carry(probe, rt, patched)
		if !equality.Semantic.DeepEqual(probe, patched) {
			return patched, nil
		}
		return out, nil
	}
	ev := c.J.Add(&Event{API: K8sUpdate, Target: name, Resource: "nodes", Verb: "patch"})
	if cur, ok := c.Nodes[name]; ok {
		ev.Before = cur.DeepCopy()
		if sent, err := apply(cur); err == nil {
			ev.Sent = sent
		}
	}
	k := c.Faults.next(K8sUpdate, name)
	if k != FNone && k != FAfterEffect {
		err := k8sErr(k, "nodes", name)
		ev.Err, ev.Injected = err.Error(), true
		return true, nil, err
	}
	if c.BeforeUpdate != nil {
		c.BeforeUpdate(name)
	}
	cur, ok := c.Nodes[name]
	if !ok {
		err := apierrors.NewNotFound(schema.GroupResource{Resource: "nodes"}, name)
		ev.Err = err.Error()
		return true, nil, err
	}
	ev.Before = cur.DeepCopy()
	sent, err := apply(cur)
	if err != nil {
		e := apierrors.NewBadRequest("cannot apply patch: " + err.Error())
		ev.Err = e.Error()
		return true, nil, e
	}
	ev.Sent = sent.DeepCopy()
	// a patch is a precondition-free write unless it names a resourceVersion itself
	if sent.ResourceVersion != cur.ResourceVersion {
		err := apierrors.NewConflict(schema.GroupResource{Resource: "nodes"}, name,
			errors.New("the object has been modified; please apply your changes to the latest version and try again"))
		ev.Err = err.Error()
		return true, nil, err
	}
	stored := sent.DeepCopy()
	stored.ResourceVersion = c.nextRV()
	c.Nodes[name] = stored
	ev.Applied = true
	if k == FAfterEffect {
		err := k8sErr(FServerErr, "nodes", name)
		ev.Err, ev.Injected = err.Error(), true
		return true, nil, err
	}
	return true, stored.DeepCopy(), nil
}

func (c *Cluster) deleteNode(name string) (bool, runtime.Object, error) {
	ev := c.J.Add(&Event{API: K8sDelete, Target: name, Resource: "nodes", Verb: "delete"})
	if cur, ok := c.Nodes[name]; ok {
		ev.Before = cur.DeepCopy()
	}
	k := c.Faults.next(K8sDelete, name)
	if k != FNone && k != FAfterEffect {
		err := k8sErr(k, "nodes", name)
		ev.Err, ev.Injected = err.Error(), true
		return true, nil, err
	}
	if _, ok := c.Nodes[name]; !ok {
		err := apierrors.NewNotFound(schema.GroupResource{Resource: "nodes"}, name)
		ev.Err = err.Error()
		return true, nil, err
	}
	delete(c.Nodes, name)
	ev.Applied = true
	if k == FAfterEffect {
		err := k8sErr(FServerErr, "nodes", name)
		ev.Err, ev.Injected = err.Error(), true
		return true, nil, err
	}
	return true, nil, nil
}

// ---- listers ----------------------------------------------------------------

type podLister struct{ c *Cluster }
type nodeLister struct{ c *Cluster }

// PodLister returns the v1 PodLister escalator's filtered listers read from.
func (c *Cluster) PodLister() v1lister.PodLister   { return &podLister{c} }
func (c *Cluster) NodeLister() v1lister.NodeLister { return &nodeLister{c} }

func (l *podLister) List(sel labels.Selector) ([]*v1.Pod, error) {
	c := l.c
	// every group of a scan lists its pods first: this marks the group segment
	c.J.NextGroup()
	ev := c.J.Add(&Event{API: ListPods})
	if k := c.Faults.next(ListPods, ""); k != FNone {
		ev.Err, ev.Injected = "injected: pod cache unavailable", true
		return nil, errors.New(ev.Err)
	}
	out := make([]*v1.Pod, 0, len(c.View.Pods))
	for _, p := range c.View.Pods {
		if sel == nil || sel.Matches(labels.Set(p.Labels)) {
			out = append(out, p)
		}
	}
	ev.Count = len(out)
	return out, nil
}

func (l *podLister) Pods(namespace string) v1lister.PodNamespaceLister {
	panic("sim: PodLister.Pods is not something escalator calls")
}

func (l *nodeLister) List(sel labels.Selector) ([]*v1.Node, error) {
	c := l.c
	ev := c.J.Add(&Event{API: ListNodes})
	if k := c.Faults.next(ListNodes, ""); k != FNone {
		ev.Err, ev.Injected = "injected: node cache unavailable", true
		return nil, errors.New(ev.Err)
	}
	out := make([]*v1.Node, 0, len(c.View.Nodes))
	for _, n := range c.View.Nodes {
		if sel == nil || sel.Matches(labels.Set(n.Labels)) {
			out = append(out, n)
		}
	}
	ev.Count = len(out)
	return out, nil
}

func (l *nodeLister) Get(name string) (*v1.Node, error) {
	panic("sim: NodeLister.Get is not something escalator calls")
}
