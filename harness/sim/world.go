package sim

import (
	"fmt"
	"sort"
	"time"

	v1 "k8s.io/api/core/v1"
	"k8s.io/apimachinery/pkg/api/resource"
	metav1 "k8s.io/apimachinery/pkg/apis/meta/v1"
	"k8s.io/apimachinery/pkg/types"
)

const (
	EscalatorTaint = "atlassian.com/escalator"
	ForceTaint     = "atlassian.com/escalator-force"
	NoDeleteAnno   = "atlassian.com/no-delete"
)

// AddASG creates the cloud group of node group gi.
func (e *Env) AddASG(gi int, min, max, desired int64) *ASG {
	g := &ASG{Name: e.Groups[gi].Opts.CloudProviderGroupName, Min: min, Max: max, Desired: desired,
		Subnets: "subnet-a,subnet-b", Tags: map[string]string{}, Tag: string(rune('a' + gi))}
	e.AWS.ASGs[g.Name] = g
	return g
}

func (e *Env) ASGOf(gi int) *ASG { return e.AWS.ASGs[e.Groups[gi].Opts.CloudProviderGroupName] }

// NodeNameFor is the Node name of an instance.
func NodeNameFor(id string) string { return "ip-" + id }

// BuildNode makes the Node object a kubelet would register for the instance.
func (e *Env) BuildNode(gi int, inst *Instance, created time.Time) *v1.Node {
	spec := &e.Groups[gi]
	alloc := v1.ResourceList{
		v1.ResourceCPU:    *resource.NewMilliQuantity(spec.NodeCPU, resource.DecimalSI),
		v1.ResourceMemory: *resource.NewQuantity(spec.NodeMem, resource.BinarySI),
		v1.ResourcePods:   *resource.NewQuantity(110, resource.DecimalSI),
	}
	return &v1.Node{
		ObjectMeta: metav1.ObjectMeta{
			Name:              NodeNameFor(inst.ID),
			Labels:            map[string]string{spec.Opts.LabelKey: spec.Opts.LabelValue, "kubernetes.io/hostname": NodeNameFor(inst.ID)},
			Annotations:       map[string]string{"node.alpha.kubernetes.io/ttl": "0"},
			CreationTimestamp: metav1.NewTime(created),
		},
		Spec: v1.NodeSpec{ProviderID: ProviderID(inst)},
		Status: v1.NodeStatus{
			Allocatable: alloc,
			Capacity:    alloc.DeepCopy(),
			Conditions:  []v1.NodeCondition{{Type: v1.NodeReady, Status: v1.ConditionTrue}},
		},
	}
}

// AddNode launches an instance in the group's ASG and registers its Node at once.
func (e *Env) AddNode(gi int, created time.Time) *v1.Node {
	g := e.ASGOf(gi)
	inst := e.AWS.Launch(g, e.az(gi))
	n := e.BuildNode(gi, inst, created)
	e.K.PutNode(n)
	return n
}

func (e *Env) az(gi int) string {
	if e.Groups[gi].AZ != "" {
		return e.Groups[gi].AZ
	}
	return "us-east-1a"
}

// Reconcile is what the cloud and kubelets do between scans: the ASG launches
// instances up to its desired capacity, instances register as Nodes after the
// group's registration lag, Nodes whose instance is gone are collected.
func (e *Env) Reconcile() {
	now := time.Now()
	if e.gcSeen == nil {
		e.gcSeen = map[string]int{}
	}
	for gi := range e.Groups {
		g := e.ASGOf(gi)
		if g == nil {
			continue
		}
		for int64(len(g.Instances)) < g.Desired {
			e.AWS.Launch(g, e.az(gi))
		}
		for _, id := range g.Instances {
			inst := e.AWS.Inst[id]
			name := NodeNameFor(id)
			if _, ok := e.K.Nodes[name]; ok {
				continue
			}
			if now.Sub(inst.Launch) >= e.Groups[gi].RegLag && e.AWS.running(inst) {
				// the Node object is created when the kubelet registers
				e.K.PutNode(e.BuildNode(gi, inst, now))
			}
		}
	}
	// cloud-controller GC of Nodes whose instance no longer exists
	for _, name := range e.K.SortedNodeNames() {
		n := e.K.Nodes[name]
		id := instanceIDOf(n.Spec.ProviderID)
		inst, ok := e.AWS.Inst[id]
		if ok && inst.State == "terminated" {
			// the cloud controller notices a vanished instance with some delay
			e.gcSeen[name]++
			if e.GCLag <= 0 || e.gcSeen[name] > e.GCLag {
				e.RemoveNodeAndPods(name)
				delete(e.gcSeen, name)
			}
		}
	}
}

func instanceIDOf(providerID string) string {
	for i := len(providerID) - 1; i >= 0; i-- {
		if providerID[i] == '/' {
			return providerID[i+1:]
		}
	}
	return providerID
}

// RemoveNodeAndPods deletes a Node object; its pods go back to pending.
func (e *Env) RemoveNodeAndPods(name string) {
	e.K.DeleteNodeObj(name)
	for _, k := range e.K.SortedPodKeys() {
		p := e.K.Pods[k]
		if p.Spec.NodeName == name {
			if IsDaemonSetPod(p) || p.Labels["verif/group"] == "stray" {
				e.K.DeletePodObj(k)
				continue
			}
			p.Spec.NodeName = ""
			p.Status.Phase = v1.PodPending
			p.Status.Conditions = []v1.PodCondition{{Type: v1.PodScheduled, Status: v1.ConditionFalse, Reason: "Unschedulable"}}
		}
	}
}

func IsDaemonSetPod(p *v1.Pod) bool {
	for _, o := range p.OwnerReferences {
		if o.Kind == "DaemonSet" {
			return true
		}
	}
	return false
}

// PodShape selects how a pod expresses its node group.
type PodShape int

const (
	ShapeSelector PodShape = iota
	ShapeAffinity
	ShapeDefault // no selector, no affinity: belongs to the group named "default"
	ShapeAffinityExclude // required affinity: In [own value] and NotIn [the other groups' values], Exists on a foreign key
)

// BuildPod makes a pod of node group gi requesting cpu millicores and mem bytes.
func (e *Env) BuildPod(gi int, cpu, mem int64, shape PodShape) *v1.Pod {
	if e.podSeq == nil {
		e.podSeq = map[int]int{}
	}
	e.podSeq[gi]++
	spec := &e.Groups[gi]
	p := &v1.Pod{
		ObjectMeta: metav1.ObjectMeta{Name: fmt.Sprintf("pod-%c%06d", rune('a'+gi), e.podSeq[gi]), Namespace: "batch",
			UID: types.UID(fmt.Sprintf("uid-%c%06d", rune('a'+gi), e.podSeq[gi])),
			OwnerReferences: []metav1.OwnerReference{{Kind: "Job", Name: "job"}}},
		Spec: v1.PodSpec{
			Containers: []v1.Container{{Name: "main", Resources: v1.ResourceRequirements{Requests: v1.ResourceList{
				v1.ResourceCPU:    *resource.NewMilliQuantity(cpu, resource.DecimalSI),
				v1.ResourceMemory: *resource.NewQuantity(mem, resource.BinarySI),
			}}}},
		},
		Status: v1.PodStatus{Phase: v1.PodPending},
	}
	if spec.Opts.Name == "default" {
		shape = ShapeDefault
	}
	switch shape {
	case ShapeSelector:
		p.Spec.NodeSelector = map[string]string{spec.Opts.LabelKey: spec.Opts.LabelValue}
	case ShapeAffinityExclude:
		var others []string
		for i := range e.Groups {
			if i != gi {
				others = append(others, e.Groups[i].Opts.LabelValue)
			}
		}
		exprs := []v1.NodeSelectorRequirement{{Key: spec.Opts.LabelKey, Operator: v1.NodeSelectorOpIn, Values: []string{spec.Opts.LabelValue}}}
		if len(others) > 0 {
			exprs = append(exprs, v1.NodeSelectorRequirement{Key: spec.Opts.LabelKey, Operator: v1.NodeSelectorOpNotIn, Values: others})
			exprs = append(exprs, v1.NodeSelectorRequirement{Key: "zone-" + others[0], Operator: v1.NodeSelectorOpIn, Values: others})
		}
		p.Spec.Affinity = &v1.Affinity{NodeAffinity: &v1.NodeAffinity{RequiredDuringSchedulingIgnoredDuringExecution: &v1.NodeSelector{
			NodeSelectorTerms: []v1.NodeSelectorTerm{{MatchExpressions: exprs}}}}}
	case ShapeAffinity:
		p.Spec.Affinity = &v1.Affinity{NodeAffinity: &v1.NodeAffinity{RequiredDuringSchedulingIgnoredDuringExecution: &v1.NodeSelector{
			NodeSelectorTerms: []v1.NodeSelectorTerm{{MatchExpressions: []v1.NodeSelectorRequirement{
				{Key: spec.Opts.LabelKey, Operator: v1.NodeSelectorOpIn, Values: []string{"zz-other", spec.Opts.LabelValue}}}}}}}}
	}
	return p
}

// BuildDaemonPod makes a DaemonSet pod bound to a node (never counted by escalator).
func (e *Env) BuildDaemonPod(gi int, node string) *v1.Pod {
	p := e.BuildPod(gi, 100, 64<<20, ShapeSelector)
	p.Name = "ds-" + p.Name
	p.OwnerReferences = []metav1.OwnerReference{{Kind: "DaemonSet", Name: "ds"}}
	Bind(p, node)
	return p
}

// Bind marks the pod as scheduled and running on the node.
func Bind(p *v1.Pod, node string) {
	p.Spec.NodeName = node
	p.Status.Phase = v1.PodRunning
	p.Status.Conditions = []v1.PodCondition{{Type: v1.PodScheduled, Status: v1.ConditionTrue}}
}

func podReq(p *v1.Pod) (cpu, mem int64) {
	for _, c := range p.Spec.Containers {
		q := c.Resources.Requests[v1.ResourceCPU]
		cpu += q.MilliValue()
		m := c.Resources.Requests[v1.ResourceMemory]
		mem += m.Value()
	}
	return
}

// NodeSchedulable: the simulated scheduler places pods only on uncordoned nodes
// without NoSchedule/NoExecute taints.
func NodeSchedulable(n *v1.Node) bool {
	if n.Spec.Unschedulable {
		return false
	}
	for _, t := range n.Spec.Taints {
		if t.Effect == v1.TaintEffectNoSchedule || t.Effect == v1.TaintEffectNoExecute {
			return false
		}
	}
	return true
}

// Schedule binds pending pods of group gi to schedulable nodes of the group with room.
func (e *Env) Schedule(gi int) {
	spec := &e.Groups[gi]
	type room struct{ cpu, mem int64 }
	free := map[string]*room{}
	var names []string
	for _, name := range e.K.SortedNodeNames() {
		n := e.K.Nodes[name]
		if n.Labels[spec.Opts.LabelKey] != spec.Opts.LabelValue || !NodeSchedulable(n) {
			continue
		}
		c := n.Status.Allocatable[v1.ResourceCPU]
		m := n.Status.Allocatable[v1.ResourceMemory]
		free[name] = &room{c.MilliValue(), m.Value()}
		names = append(names, name)
	}
	for _, k := range e.K.SortedPodKeys() {
		p := e.K.Pods[k]
		if r, ok := free[p.Spec.NodeName]; ok {
			c, m := podReq(p)
			r.cpu -= c
			r.mem -= m
		}
	}
	for _, k := range e.K.SortedPodKeys() {
		p := e.K.Pods[k]
		if p.Spec.NodeName != "" || p.Labels["verif/group"] != fmt.Sprint(gi) {
			continue
		}
		c, m := podReq(p)
		placed := false
		for _, name := range names {
			r := free[name]
			if r.cpu >= c && r.mem >= m {
				r.cpu -= c
				r.mem -= m
				Bind(p, name)
				placed = true
				break
			}
		}
		if !placed {
			p.Status.Conditions = []v1.PodCondition{{Type: v1.PodScheduled, Status: v1.ConditionFalse, Reason: "Unschedulable"}}
		}
	}
}

// AddPod stores a pod of group gi (tagged so the world knows whose it is).
func (e *Env) AddPod(gi int, p *v1.Pod) {
	if p.Labels == nil {
		p.Labels = map[string]string{}
	}
	p.Labels["verif/group"] = fmt.Sprint(gi)
	e.K.PutPod(p)
}

// GroupPodKeys lists the world's pods of group gi (excluding daemon pods).
func (e *Env) GroupPodKeys(gi int) []string {
	var out []string
	for _, k := range e.K.SortedPodKeys() {
		p := e.K.Pods[k]
		if p.Labels["verif/group"] == fmt.Sprint(gi) && !IsDaemonSetPod(p) {
			out = append(out, k)
		}
	}
	return out
}

// GroupNodeNames lists the nodes carrying the group's label, oldest first by name order.
func (e *Env) GroupNodeNames(gi int) []string {
	spec := &e.Groups[gi]
	var out []string
	for _, name := range e.K.SortedNodeNames() {
		if e.K.Nodes[name].Labels[spec.Opts.LabelKey] == spec.Opts.LabelValue {
			out = append(out, name)
		}
	}
	sort.Strings(out)
	return out
}

// HasTaint reports whether the node carries a taint with the key.
func HasTaint(n *v1.Node, key string) bool {
	for _, t := range n.Spec.Taints {
		if t.Key == key {
			return true
		}
	}
	return false
}

// SetTaint adds (or replaces) a taint with the key on the stored node, as an outside actor would.
func (e *Env) SetTaint(name, key, value string, effect v1.TaintEffect) {
	e.K.MutateNode(name, func(n *v1.Node) {
		out := n.Spec.Taints[:0]
		for _, t := range n.Spec.Taints {
			if t.Key != key {
				out = append(out, t)
			}
		}
		n.Spec.Taints = append(out, v1.Taint{Key: key, Value: value, Effect: effect})
	})
}

func (e *Env) RemoveTaint(name, key string) {
	e.K.MutateNode(name, func(n *v1.Node) {
		out := n.Spec.Taints[:0]
		for _, t := range n.Spec.Taints {
			if t.Key != key {
				out = append(out, t)
			}
		}
		n.Spec.Taints = out
	})
}

func (e *Env) SetCordon(name string, on bool) {
	e.K.MutateNode(name, func(n *v1.Node) { n.Spec.Unschedulable = on })
}

func (e *Env) SetAnnotation(name, key, val string, present bool) {
	e.K.MutateNode(name, func(n *v1.Node) {
		if n.Annotations == nil {
			n.Annotations = map[string]string{}
		}
		if present {
			n.Annotations[key] = val
		} else {
			delete(n.Annotations, key)
		}
	})
}
