package sim

import (
	"flag"
	"fmt"
	"io"
	"math"
	"math/rand"
	"runtime/debug"
	"strings"
	"time"

	"github.com/atlassian/escalator/pkg/cloudprovider"
	"github.com/atlassian/escalator/pkg/cloudprovider/aws"
	"github.com/atlassian/escalator/pkg/controller"
	"github.com/atlassian/escalator/pkg/metrics"
	"github.com/prometheus/client_golang/prometheus"
	dto "github.com/prometheus/client_model/go"
	log "github.com/sirupsen/logrus"
	"k8s.io/client-go/kubernetes"
	"k8s.io/klog/v2"
)

// GroupSpec is one configured node group plus the shape of its machines.
type GroupSpec struct {
	Opts    controller.NodeGroupOptions
	NodeCPU int64 // millicores allocatable per node
	NodeMem int64 // bytes allocatable per node
	AZ      string
	RegLag  time.Duration // time between instance launch and Node registration
}

// Env is one simulated deployment: cluster, cloud, configuration and the
// running controller.
type Env struct {
	J      *Journal
	K      *Cluster
	AWS    *Cloud
	Faults *FaultPlan
	Groups []GroupSpec
	// GlobalDry is the --drymode flag
	GlobalDry bool

	Ctl    *controller.Controller
	Epoch  int // controller lifetimes so far
	ScanNo int
	stop   chan struct{}

	ViewRng *rand.Rand
	Logs    *LogCapture

	// BuildCalls counts provider builds (the first one per lifetime is construction)
	// RealConstructor: build the controller with the real NewController instead of the mirroring hook
	RealConstructor bool
	// InformerProbe, when set, sees a controller built by the real NewController while it still uses its own
	// informer-backed listers (before they are replaced by the harness' snapshot listers)
	InformerProbe func(ctl *controller.Controller)
	BuildCalls int
	podSeq     map[int]int
	// GCLag: a Node whose instance is gone survives this many reconciles (0 = collected at once)
	GCLag  int
	gcSeen map[string]int
}

// FatalSignal is the panic raised in place of os.Exit when escalator calls log.Fatal.
type FatalSignal struct{ Code int }

// LogCapture keeps the log entries of the current scan (coverage only).
type LogCapture struct {
	Lines []string
	Max   int
}

func (l *LogCapture) Levels() []log.Level { return log.AllLevels }
func (l *LogCapture) Fire(e *log.Entry) error {
	if len(l.Lines) < l.Max {
		s := e.Level.String()[:4] + " " + e.Message
		if v, ok := e.Data["drymode"]; ok {
			s += fmt.Sprintf(" drymode=%v", v)
		}
		if v, ok := e.Data["nodegroup"]; ok {
			s += fmt.Sprintf(" nodegroup=%v", v)
		}
		l.Lines = append(l.Lines, s)
	}
	return nil
}

var logCapture = &LogCapture{Max: 4000}

func init() {
	log.SetOutput(io.Discard)
	log.SetLevel(log.InfoLevel)
	log.AddHook(logCapture)
	log.StandardLogger().ExitFunc = func(code int) { panic(FatalSignal{Code: code}) }
	// client-go's reflectors report their (expected) watch failures through klog: keep them off stderr
	fs := flag.NewFlagSet("klog", flag.ContinueOnError)
	klog.InitFlags(fs)
	fs.Set("logtostderr", "false")
	fs.Set("alsologtostderr", "false")
	fs.Set("stderrthreshold", "FATAL")
	klog.SetOutput(io.Discard)
}

// SetLogLevel lets a run exercise the debug formatting paths as well.
func SetLogLevel(l log.Level) { log.SetLevel(l) }

func NewEnv(groups []GroupSpec, globalDry bool, viewSeed int64) *Env {
	j := &Journal{}
	j.EndScan()
	k := NewCluster(j)
	e := &Env{J: j, K: k, Faults: k.Faults, Groups: groups, GlobalDry: globalDry, Logs: logCapture}
	e.AWS = NewCloud(j, e.Faults)
	e.ViewRng = rand.New(rand.NewSource(viewSeed))
	return e
}

// providerConfigs mirrors cmd/main.go setupCloudProvider.
func (e *Env) providerConfigs() []cloudprovider.NodeGroupConfig {
	var cfgs []cloudprovider.NodeGroupConfig
	for i := range e.Groups {
		n := &e.Groups[i].Opts
		cfgs = append(cfgs, cloudprovider.NodeGroupConfig{
			Name:    n.Name,
			GroupID: n.CloudProviderGroupName,
			AWSConfig: cloudprovider.AWSNodeGroupConfig{
				LaunchTemplateID:          n.AWS.LaunchTemplateID,
				LaunchTemplateVersion:     n.AWS.LaunchTemplateVersion,
				FleetInstanceReadyTimeout: n.AWS.FleetInstanceReadyTimeoutDuration(),
				Lifecycle:                 n.AWS.Lifecycle,
				InstanceTypeOverrides:     n.AWS.InstanceTypeOverrides,
				ResourceTagging:           n.AWS.ResourceTagging,
			},
		})
	}
	return cfgs
}

type builder struct{ e *Env }

func (b builder) Build() (cloudprovider.CloudProvider, error) {
	b.e.BuildCalls++
	return aws.VerifNewCloudProvider(&ASGService{C: b.e.AWS}, &EC2Service{C: b.e.AWS}, b.e.providerConfigs()...)
}

// Builder is the cloudprovider.Builder handed to the controller.
func (e *Env) Builder() cloudprovider.Builder { return builder{e} }

// Start creates (or re-creates, after a crash or restart) the controller on the same world.
func (e *Env) Start() error {
	if e.stop != nil {
		close(e.stop)
	}
	e.stop = make(chan struct{})
	opts := controller.Opts{
		K8SClient:            e.K.Client,
		CloudProviderBuilder: e.Builder(),
		ScanInterval:         time.Minute,
		DryMode:              e.GlobalDry,
	}
	for i := range e.Groups {
		opts.NodeGroups = append(opts.NodeGroups, e.Groups[i].Opts)
	}
	e.Faults.ByIndex, e.Faults.ByNode, e.Faults.ByAPI, e.Faults.Ordinal, e.Faults.ByNodeUpdate = nil, nil, nil, nil, nil
	var ctl *controller.Controller
	var err error
	if e.RealConstructor {
		// the real NewController / NewClient: informers list once through a REST client served from the store,
		// are stopped, and the controller is switched to the harness' snapshot listers
		var rc kubernetes.Interface
		rc, err = e.K.RESTBackedClient()
		if err != nil {
			return err
		}
		opts.K8SClient = rc
		informerStop := make(chan struct{})
		ctl, err = controller.NewController(opts, informerStop)
		close(informerStop)
		if err != nil {
			return err
		}
		if e.InformerProbe != nil {
			e.InformerProbe(ctl)
		}
		ctl.VerifUseListers(e.K.PodLister(), e.K.NodeLister())
	} else {
		ctl, err = controller.VerifNewController(opts, e.K.PodLister(), e.K.NodeLister(), e.stop)
		if err != nil {
			return err
		}
	}
	e.Ctl = ctl
	e.Epoch++
	return nil
}

// GroupDry reports whether group i runs in dry mode.
func (e *Env) GroupDry(i int) bool { return e.GlobalDry || e.Groups[i].Opts.DryMode }

// ScanOpts are the per-scan knobs of the history generator.
type ScanOpts struct {
	Faults    *FaultPlan
	StaleView bool // serve the previous scan's snapshot again
	BeforeGet func(name string)
	BeforeUpdate func(name string)
	MidScan   bool // the world changes while the scan runs (exact-count oracles do not apply)
}

// GaugeVals are the per-group gauges written by a scan (NaN when the scan did not write them).
type GaugeVals struct {
	Nodes, Untainted, Tainted, ForceTainted, Cordoned, Pods float64
	CPUReq, MemReq, CPUCap, MemCap, CPUPct, MemPct         float64
	ScaleDelta                                              float64
}

// LockObs is the controller's own lock state after the scan (cross-check only).
type LockObs struct {
	IsLocked  bool
	LockTime  time.Time
	Requested int
	MinNodes  int
	MaxNodes  int
	Delta     int
	TaintTracker []string
}

// ScanRecord is everything observed about one scan.
type ScanRecord struct {
	No      int
	Epoch   int
	Start   int64
	End     int64
	View    *View
	Stale   bool
	Events  []*Event
	Err     error
	Panic   interface{}
	Stack   string
	Rebuilt bool // the cloud provider was rebuilt during the scan (refresh failed)
	MidScan bool // something changed a node between the snapshot and escalator's read
	Crashed bool // injected process death
	Fatal   bool // escalator called log.Fatal
	Faults  *FaultPlan
	FaultHits  int
	FaultCalls int
	Cache   map[string]*ASGSnap // provider cache during the group segments
	Mutated []string
	Gauges  []GaugeVals
	Locks   []LockObs
	Logs    []string
	// state of the simulated cloud groups before the scan started
	CloudBefore map[string]ASG
}

const gaugeSentinel = -987654321.0

func gv(g *prometheus.GaugeVec, label string) prometheus.Gauge { return g.WithLabelValues(label) }

func readGauge(g prometheus.Gauge) float64 {
	var m dto.Metric
	if err := g.Write(&m); err != nil || m.Gauge == nil {
		return math.NaN()
	}
	v := m.Gauge.GetValue()
	if v == gaugeSentinel {
		return math.NaN()
	}
	return v
}

func groupGauges(name string) []prometheus.Gauge {
	return []prometheus.Gauge{
		gv(metrics.NodeGroupNodes, name), gv(metrics.NodeGroupNodesUntainted, name), gv(metrics.NodeGroupNodesTainted, name),
		gv(metrics.NodeGroupNodesForceTainted, name), gv(metrics.NodeGroupNodesCordoned, name), gv(metrics.NodeGroupPods, name),
		gv(metrics.NodeGroupCPURequest, name), gv(metrics.NodeGroupMemRequest, name), gv(metrics.NodeGroupCPUCapacity, name),
		gv(metrics.NodeGroupMemCapacity, name), gv(metrics.NodeGroupsCPUPercent, name), gv(metrics.NodeGroupsMemPercent, name),
		gv(metrics.NodeGroupScaleDelta, name),
	}
}

// RunScan serves a view, runs the real RunOnce and records what happened.
func (e *Env) RunScan(o ScanOpts) *ScanRecord {
	e.ScanNo++
	rec := &ScanRecord{No: e.ScanNo, Epoch: e.Epoch}
	if o.StaleView && e.K.View != nil {
		rec.Stale = true
		e.K.View.Stale = true
	} else {
		e.K.PrevView = e.K.View
		e.K.View = e.K.Snapshot(e.ViewRng)
		e.K.View.TakenAt = time.Now().UnixNano()
	}
	rec.View = e.K.View
	rec.MidScan = o.MidScan
	e.K.BeforeGet = o.BeforeGet
	e.K.BeforeUpdate = o.BeforeUpdate

	e.Faults.ByIndex, e.Faults.ByNode, e.Faults.ByAPI, e.Faults.Ordinal, e.Faults.ByNodeUpdate = nil, nil, nil, nil, nil
	if o.Faults != nil {
		e.Faults.ByIndex, e.Faults.ByNode, e.Faults.ByAPI, e.Faults.Ordinal, e.Faults.ByNodeUpdate = o.Faults.ByIndex, o.Faults.ByNode, o.Faults.ByAPI, o.Faults.Ordinal, o.Faults.ByNodeUpdate
	}
	rec.Faults = o.Faults
	e.Faults.Reset()

	rec.CloudBefore = map[string]ASG{}
	for name, g := range e.AWS.ASGs {
		cp := *g
		cp.Instances = append([]string(nil), g.Instances...)
		rec.CloudBefore[name] = cp
	}
	for i := range e.Groups {
		for _, g := range groupGauges(e.Groups[i].Opts.Name) {
			g.Set(gaugeSentinel)
		}
	}
	e.Logs.Lines = e.Logs.Lines[:0]

	e.J.BeginScan(e.ScanNo)
	buildsBefore := e.BuildCalls
	from := len(e.J.Events)
	rec.Start = time.Now().UnixNano()
	func() {
		defer func() {
			if r := recover(); r != nil {
				switch v := r.(type) {
				case CrashSignal:
					rec.Crashed = true
				case FatalSignal:
					rec.Fatal = true
					rec.Panic = fmt.Sprintf("log.Fatal exit(%d)", v.Code)
					rec.Stack = trimStack(string(debug.Stack()))
				default:
					stack := trimStack(string(debug.Stack()))
					if m := UnmodelledAWSCall(stack); m != "" {
						// escalator called an AWS operation the simulated services do not implement (the embedded
						// SDK interface is nil): the harness cannot go on with this scan, and it is not escalator's panic
						ev := e.J.Add(&Event{API: AwsOther, Verb: m, Note: "aws operation " + m + " is not modelled by the simulated cloud"})
						ev.Err = "unsupported"
					} else {
						rec.Panic = r
						rec.Stack = stack
					}
				}
			}
		}()
		rec.Err = e.Ctl.RunOnce()
	}()
	e.J.EndScan()
	rec.End = time.Now().UnixNano()
	rec.Rebuilt = e.BuildCalls != buildsBefore
	rec.Events = e.J.Since(from)
	rec.FaultHits = e.Faults.Hits
	rec.FaultCalls = e.Faults.Calls()
	e.Faults.ByIndex, e.Faults.ByNode, e.Faults.ByAPI, e.Faults.Ordinal, e.Faults.ByNodeUpdate = nil, nil, nil, nil, nil
	e.K.BeforeGet = nil
	e.K.BeforeUpdate = nil
	rec.Mutated = rec.View.Mutated()
	rec.Cache = map[string]*ASGSnap{}
	for k, v := range e.AWS.Cache {
		rec.Cache[k] = v
	}
	for i := range e.Groups {
		name := e.Groups[i].Opts.Name
		gs := groupGauges(name)
		vals := make([]float64, len(gs))
		for k, g := range gs {
			vals[k] = readGauge(g)
		}
		rec.Gauges = append(rec.Gauges, GaugeVals{vals[0], vals[1], vals[2], vals[3], vals[4], vals[5], vals[6], vals[7], vals[8], vals[9], vals[10], vals[11], vals[12]})
		var lo LockObs
		if e.Ctl != nil {
			lo.IsLocked, lo.LockTime, lo.Requested, _ = e.Ctl.VerifLockState(name)
			lo.MinNodes, lo.MaxNodes, lo.Delta, lo.TaintTracker, _, _ = e.Ctl.VerifGroupState(name)
		}
		rec.Locks = append(rec.Locks, lo)
	}
	rec.Logs = append([]string(nil), e.Logs.Lines...)
	return rec
}

// UnmodelledAWSCall: the panic is a nil dereference inside the promoted (auto-generated) method of the SDK interface
// embedded in ASGService / EC2Service, i.e. an operation the simulation does not implement. Returns its name.
func UnmodelledAWSCall(stack string) string {
	lines := strings.Split(stack, "\n")
	for i, l := range lines {
		if strings.HasPrefix(l, "panic(") {
			lines = lines[i:]
			break
		}
	}
	for i, l := range lines {
		if strings.HasPrefix(l, "panic(") || strings.HasPrefix(l, "runtime.") || strings.HasPrefix(l, "\t") || l == "" || strings.HasPrefix(l, "goroutine ") {
			continue
		}
		// first frame that is neither the runtime nor a file line
		for _, recv := range []string{"verifharness/sim.(*ASGService).", "verifharness/sim.(*EC2Service).", "main.(*lockedASG).", "main.(*lockedEC2).", "main.lockedASG.", "main.lockedEC2."} {
			if strings.HasPrefix(l, recv) && i+1 < len(lines) && strings.Contains(lines[i+1], "<autogenerated>") {
				name := strings.TrimPrefix(l, recv)
				if k := strings.Index(name, "("); k > 0 {
					name = name[:k]
				}
				return name
			}
		}
		return ""
	}
	return ""
}

func trimStack(s string) string {
	// keep the frames from the panic downwards, at most 40 lines
	lines := strings.Split(s, "\n")
	start := 0
	for i, l := range lines {
		if strings.HasPrefix(l, "panic(") {
			start = i
			break
		}
	}
	lines = lines[start:]
	if len(lines) > 40 {
		lines = lines[:40]
	}
	return strings.Join(lines, "\n")
}

// Advance moves the virtual clock (all goroutines block, fake time jumps).
func Advance(d time.Duration) {
	if d > 0 {
		time.Sleep(d)
	}
}
