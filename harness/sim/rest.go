package sim

import (
	"bytes"
	"encoding/json"
	"io"
	"net/http"
	"strings"

	v1 "k8s.io/api/core/v1"
	metav1 "k8s.io/apimachinery/pkg/apis/meta/v1"
	"k8s.io/client-go/kubernetes"
	"k8s.io/client-go/kubernetes/scheme"
	corev1 "k8s.io/client-go/kubernetes/typed/core/v1"
	"k8s.io/client-go/rest"
)

// restIface is the fake clientset plus a working REST client for LIST requests, which is all the real
// NewClient needs to start its informers and see them synced. WATCH requests are refused: the informers are
// stopped right after construction and the controller is switched to the harness' snapshot listers.
type restIface struct {
	kubernetes.Interface
	core *coreWrap
}

func (r restIface) CoreV1() corev1.CoreV1Interface { return r.core }

type coreWrap struct {
	corev1.CoreV1Interface
	rc rest.Interface
}

func (c *coreWrap) RESTClient() rest.Interface { return c.rc }

type listTransport struct{ c *Cluster }

func (t listTransport) RoundTrip(req *http.Request) (*http.Response, error) {
	respond := func(code int, obj interface{}) (*http.Response, error) {
		b, _ := json.Marshal(obj)
		return &http.Response{StatusCode: code, Status: http.StatusText(code), Proto: "HTTP/1.1", ProtoMajor: 1, ProtoMinor: 1,
			Header: http.Header{"Content-Type": []string{"application/json"}}, Body: io.NopCloser(bytes.NewReader(b)), Request: req}, nil
	}
	q := req.URL.Query()
	if q.Get("watch") == "true" || q.Get("watch") == "1" {
		return respond(http.StatusServiceUnavailable, &metav1.Status{TypeMeta: metav1.TypeMeta{Kind: "Status", APIVersion: "v1"}, Status: "Failure", Code: 503, Reason: metav1.StatusReasonServiceUnavailable, Message: "sim: watch not served"})
	}
	switch {
	case strings.HasSuffix(req.URL.Path, "/pods"):
		l := &v1.PodList{TypeMeta: metav1.TypeMeta{Kind: "PodList", APIVersion: "v1"}, ListMeta: metav1.ListMeta{ResourceVersion: "1"}}
		for _, k := range t.c.SortedPodKeys() {
			l.Items = append(l.Items, *t.c.Pods[k])
		}
		return respond(200, l)
	case strings.HasSuffix(req.URL.Path, "/nodes"):
		l := &v1.NodeList{TypeMeta: metav1.TypeMeta{Kind: "NodeList", APIVersion: "v1"}, ListMeta: metav1.ListMeta{ResourceVersion: "1"}}
		for _, k := range t.c.SortedNodeNames() {
			l.Items = append(l.Items, *t.c.Nodes[k])
		}
		return respond(200, l)
	}
	return respond(404, &metav1.Status{TypeMeta: metav1.TypeMeta{Kind: "Status", APIVersion: "v1"}, Status: "Failure", Code: 404, Reason: metav1.StatusReasonNotFound})
}

// RESTBackedClient wraps the cluster's fake clientset so that CoreV1().RESTClient() works for informer LISTs.
func (c *Cluster) RESTBackedClient() (kubernetes.Interface, error) {
	gv := v1.SchemeGroupVersion
	rc, err := rest.RESTClientFor(&rest.Config{Host: "http://sim.invalid", APIPath: "/api",
		ContentConfig: rest.ContentConfig{GroupVersion: &gv, NegotiatedSerializer: scheme.Codecs.WithoutConversion(), ContentType: "application/json"},
		Transport:     listTransport{c}})
	if err != nil {
		return nil, err
	}
	return restIface{Interface: c.Client, core: &coreWrap{CoreV1Interface: c.Client.CoreV1(), rc: rc}}, nil
}
