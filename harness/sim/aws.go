package sim

import (
	"fmt"
	"sort"
	"strings"
	"time"

	awsapi "github.com/aws/aws-sdk-go/aws"
	"github.com/aws/aws-sdk-go/aws/awserr"
	"github.com/aws/aws-sdk-go/service/autoscaling"
	"github.com/aws/aws-sdk-go/service/autoscaling/autoscalingiface"
	"github.com/aws/aws-sdk-go/service/ec2"
	"github.com/aws/aws-sdk-go/service/ec2/ec2iface"
)

// Instance is a simulated EC2 instance.
type Instance struct {
	ID        string
	AZ        string
	Launch    time.Time
	ReadyAt   int64 // virtual unix nanos at which the instance reports "running"; <0 = never
	State     string
	ASG       string // "" when not attached
	Lifecycle string
	FromFleet bool
}

// ASG is a simulated auto-scaling group.
type ASG struct {
	Name      string
	Min       int64
	Max       int64
	Desired   int64
	Instances []string
	Subnets   string
	Tags      map[string]string
	Tag       string // short prefix used in instance ids
}

// ASGSnap is what a DescribeAutoScalingGroups call returned for one group.
type ASGSnap struct {
	Name        string
	Min         int64
	Max         int64
	Desired     int64
	ProviderIDs []string
	At          int64
}

func (s *ASGSnap) Has(providerID string) bool {
	for _, p := range s.ProviderIDs {
		if p == providerID {
			return true
		}
	}
	return false
}

// FleetScript tells the next CreateFleet calls how to behave.
type FleetScript struct {
	Groups      int           // split the returned ids over this many Instances entries (>=1)
	ReadyAfter  time.Duration // instances report running this long after creation; <0 = never
	FailMessage string        // non-empty: return no instances and this error message in Errors
	WithErrors  bool          // return instances AND an Errors entry (the documented partial-error case)
	Short       int64         // return this many instances fewer than asked for (at least one is returned)
	PageSize    int           // page size of DescribeInstanceStatusPages
	NilActivity bool
	Empty       bool // answer with neither instances nor errors
}

// Cloud is the simulated AWS account.
type Cloud struct {
	ASGs   map[string]*ASG
	Inst   map[string]*Instance
	J      *Journal
	Faults *FaultPlan
	Fleet  FleetScript
	ids    map[string]int

	// what the provider cache holds: the last successful describe per group issued outside a group segment
	Cache map[string]*ASGSnap
	drift map[string]int64 // accepted decrementing terminations per group since its cached description was taken
}

func NewCloud(j *Journal, faults *FaultPlan) *Cloud {
	return &Cloud{ASGs: map[string]*ASG{}, Inst: map[string]*Instance{}, J: j, Faults: faults,
		Fleet: FleetScript{Groups: 1, PageSize: 50}, Cache: map[string]*ASGSnap{}}
}

func ProviderID(in *Instance) string { return fmt.Sprintf("aws:///%s/%s", in.AZ, in.ID) }

// NewInstanceID numbers instances per cloud group (tag), so that what happens in one
// group never changes the names another group sees.
func (c *Cloud) NewInstanceID(tag string) string {
	if c.ids == nil {
		c.ids = map[string]int{}
	}
	c.ids[tag]++
	return fmt.Sprintf("i-%s%06d", tag, c.ids[tag])
}

// Launch creates a running instance attached to the ASG (what the ASG itself does
// when desired exceeds its size).
func (c *Cloud) Launch(asg *ASG, az string) *Instance {
	in := &Instance{ID: c.NewInstanceID(asg.Tag), AZ: az, Launch: time.Now(), State: "running", ASG: asg.Name, Lifecycle: "on-demand"}
	in.ReadyAt = in.Launch.UnixNano()
	c.Inst[in.ID] = in
	asg.Instances = append(asg.Instances, in.ID)
	return in
}

func (c *Cloud) removeFromASG(in *Instance) {
	if in.ASG == "" {
		return
	}
	if g, ok := c.ASGs[in.ASG]; ok {
		out := g.Instances[:0]
		for _, id := range g.Instances {
			if id != in.ID {
				out = append(out, id)
			}
		}
		g.Instances = out
	}
	in.ASG = ""
}

func (c *Cloud) SortedASGNames() []string {
	names := make([]string, 0, len(c.ASGs))
	for k := range c.ASGs {
		names = append(names, k)
	}
	sort.Strings(names)
	return names
}

func (c *Cloud) snap(g *ASG) *ASGSnap {
	s := &ASGSnap{Name: g.Name, Min: g.Min, Max: g.Max, Desired: g.Desired, At: time.Now().UnixNano()}
	for _, id := range g.Instances {
		s.ProviderIDs = append(s.ProviderIDs, ProviderID(c.Inst[id]))
	}
	return s
}

// ---- autoscaling ----------------------------------------------------------------

// ASGService implements the part of the auto-scaling API escalator uses. Any other
// method hits the embedded nil interface and panics, which the C20 monitor reports.
type ASGService struct {
	autoscalingiface.AutoScalingAPI
	C *Cloud
}

// EC2Service implements the part of the EC2 API escalator uses.
type EC2Service struct {
	ec2iface.EC2API
	C *Cloud
}

func (s *ASGService) DescribeAutoScalingGroups(in *autoscaling.DescribeAutoScalingGroupsInput) (*autoscaling.DescribeAutoScalingGroupsOutput, error) {
	c := s.C
	names := awsapi.StringValueSlice(in.AutoScalingGroupNames)
	ev := c.J.Add(&Event{API: AwsDescASG, ASGs: names})
	omit := ""
	if k := c.Faults.next(AwsDescASG, ""); k == FOmitFirst || k == FOmitLast {
		if sorted := append([]string(nil), names...); len(sorted) > 0 {
			sort.Strings(sorted)
			omit = sorted[0]
			if k == FOmitLast {
				omit = sorted[len(sorted)-1]
			}
			ev.Note = "answer leaves out " + omit
		}
	} else if k != FNone {
		err := awsErr(k, "DescribeAutoScalingGroups")
		ev.Err, ev.Injected = err.Error(), true
		return nil, err
	}
	if len(names) == 0 {
		names = c.SortedASGNames()
	}
	out := &autoscaling.DescribeAutoScalingGroupsOutput{}
	for _, name := range names {
		g, ok := c.ASGs[name]
		if !ok || name == omit {
			continue
		}
		grp := &autoscaling.Group{
			AutoScalingGroupName: awsapi.String(g.Name),
			MinSize:              awsapi.Int64(g.Min),
			MaxSize:              awsapi.Int64(g.Max),
			DesiredCapacity:      awsapi.Int64(g.Desired),
			VPCZoneIdentifier:    awsapi.String(g.Subnets),
		}
		for _, id := range g.Instances {
			i := c.Inst[id]
			grp.Instances = append(grp.Instances, &autoscaling.Instance{
				InstanceId:       awsapi.String(i.ID),
				AvailabilityZone: awsapi.String(i.AZ),
				LifecycleState:   awsapi.String("InService"),
				HealthStatus:     awsapi.String("Healthy"),
			})
		}
		tagKeys := make([]string, 0, len(g.Tags))
		for k := range g.Tags {
			tagKeys = append(tagKeys, k)
		}
		sort.Strings(tagKeys)
		for _, k := range tagKeys {
			grp.Tags = append(grp.Tags, &autoscaling.TagDescription{Key: awsapi.String(k), Value: awsapi.String(g.Tags[k]),
				ResourceId: awsapi.String(g.Name), ResourceType: awsapi.String("auto-scaling-group")})
		}
		out.AutoScalingGroups = append(out.AutoScalingGroups, grp)
		if c.J.CurGroup() < 0 {
			// issued by provider construction or Refresh: this is what the provider caches
			c.Cache[g.Name] = c.snap(g)
			delete(c.drift, g.Name)
		}
	}
	if old := c.Cache[omit]; omit != "" && old != nil && c.J.CurGroup() < 0 && c.drift[omit] != 0 {
		// the provider keeps the description it had, which it has lowered itself since
		cp := *old
		cp.Desired -= c.drift[omit]
		c.Cache[omit] = &cp
		delete(c.drift, omit)
	}
	ev.Count = len(out.AutoScalingGroups)
	return out, nil
}

func (s *ASGService) SetDesiredCapacity(in *autoscaling.SetDesiredCapacityInput) (*autoscaling.SetDesiredCapacityOutput, error) {
	c := s.C
	name := awsapi.StringValue(in.AutoScalingGroupName)
	ev := c.J.Add(&Event{API: AwsSetDes, Target: name, Desired: awsapi.Int64Value(in.DesiredCapacity)})
	g, ok := c.ASGs[name]
	if ok {
		ev.CloudDesired, ev.CloudMin, ev.CloudMax = g.Desired, g.Min, g.Max
	}
	k := c.Faults.next(AwsSetDes, name)
	if k != FNone && k != FAfterEffect {
		err := awsErr(k, "SetDesiredCapacity")
		ev.Err, ev.Injected = err.Error(), true
		return nil, err
	}
	if !ok {
		err := awserr.New("ValidationError", "AutoScalingGroup name not found - null", nil)
		ev.Err = err.Error()
		return nil, err
	}
	if in.DesiredCapacity == nil {
		err := awserr.New("ValidationError", "DesiredCapacity is required", nil)
		ev.Err = err.Error()
		return nil, err
	}
	v := *in.DesiredCapacity
	if v > g.Max {
		err := awserr.New("ValidationError", fmt.Sprintf("New SetDesiredCapacity value %d is above max value %d for the AutoScalingGroup.", v, g.Max), nil)
		ev.Err = err.Error()
		return nil, err
	}
	if v < g.Min {
		err := awserr.New("ValidationError", fmt.Sprintf("New SetDesiredCapacity value %d is below min value %d for the AutoScalingGroup.", v, g.Min), nil)
		ev.Err = err.Error()
		return nil, err
	}
	g.Desired = v
	ev.Applied = true
	if k == FAfterEffect {
		err := awsErr(FServerErr, "SetDesiredCapacity")
		ev.Err, ev.Injected = err.Error(), true
		return nil, err
	}
	return &autoscaling.SetDesiredCapacityOutput{}, nil
}

func (s *ASGService) TerminateInstanceInAutoScalingGroup(in *autoscaling.TerminateInstanceInAutoScalingGroupInput) (*autoscaling.TerminateInstanceInAutoScalingGroupOutput, error) {
	c := s.C
	id := awsapi.StringValue(in.InstanceId)
	ev := c.J.Add(&Event{API: AwsTermASG, Target: id, Decrement: in.ShouldDecrementDesiredCapacity})
	if in.InstanceId == nil {
		ev.Note = "nil InstanceId"
	}
	inst, ok := c.Inst[id]
	var g *ASG
	if ok && inst.ASG != "" {
		g = c.ASGs[inst.ASG]
		ev.ASGs = []string{g.Name}
		ev.CloudDesired, ev.CloudMin, ev.CloudMax = g.Desired, g.Min, g.Max
	}
	k := c.Faults.next(AwsTermASG, id)
	if k != FNone && k != FAfterEffect {
		err := awsErr(k, "TerminateInstanceInAutoScalingGroup")
		ev.Err, ev.Injected = err.Error(), true
		return nil, err
	}
	if g == nil || inst.State == "terminated" {
		err := awserr.New("ValidationError", fmt.Sprintf("Instance Id not found - No managed instance found for instance ID: %s", id), nil)
		ev.Err = err.Error()
		return nil, err
	}
	dec := awsapi.BoolValue(in.ShouldDecrementDesiredCapacity)
	if dec && g.Desired-1 < g.Min {
		err := awserr.New("ValidationError", "Currently, desiredSize equals minSize. Terminating instance without replacement will violate group's min size constraint. Either set shouldDecrementDesiredCapacity flag to false or lower group's min size.", nil)
		ev.Err = err.Error()
		return nil, err
	}
	c.removeFromASG(inst)
	inst.State = "terminated"
	if dec {
		g.Desired--
	}
	ev.Applied = true
	if k == FAfterEffect {
		err := awsErr(FServerErr, "TerminateInstanceInAutoScalingGroup")
		ev.Err, ev.Injected = err.Error(), true
		return nil, err
	}
	if dec {
		// the provider lowers its cached desired capacity after every termination it saw accepted
		if c.drift == nil {
			c.drift = map[string]int64{}
		}
		c.drift[g.Name]++
	}
	out := &autoscaling.TerminateInstanceInAutoScalingGroupOutput{}
	if !c.Fleet.NilActivity {
		out.Activity = &autoscaling.Activity{
			ActivityId:           awsapi.String("act-" + id),
			AutoScalingGroupName: awsapi.String(g.Name),
			Description:          awsapi.String("Terminating EC2 instance: " + id),
			StatusCode:           awsapi.String("InProgress"),
		}
	}
	return out, nil
}

func (s *ASGService) AttachInstances(in *autoscaling.AttachInstancesInput) (*autoscaling.AttachInstancesOutput, error) {
	c := s.C
	name := awsapi.StringValue(in.AutoScalingGroupName)
	ids := awsapi.StringValueSlice(in.InstanceIds)
	ev := c.J.Add(&Event{API: AwsAttach, Target: name, IDs: ids})
	g, ok := c.ASGs[name]
	if ok {
		ev.CloudDesired, ev.CloudMin, ev.CloudMax = g.Desired, g.Min, g.Max
	}
	k := c.Faults.next(AwsAttach, name)
	if k != FNone && k != FAfterEffect {
		err := awsErr(k, "AttachInstances")
		ev.Err, ev.Injected = err.Error(), true
		return nil, err
	}
	fail := func(msg string) (*autoscaling.AttachInstancesOutput, error) {
		err := awserr.New("ValidationError", msg, nil)
		ev.Err = err.Error()
		return nil, err
	}
	if !ok {
		return fail("AutoScalingGroup name not found - null")
	}
	if len(ids) == 0 {
		return fail("1 validation error detected: Value at 'instanceIds' failed to satisfy constraint: Member must have length greater than or equal to 1")
	}
	if len(ids) > 20 {
		return fail(fmt.Sprintf("1 validation error detected: Value at 'instanceIds' failed to satisfy constraint: Member must have length less than or equal to 20 (got %d)", len(ids)))
	}
	seen := map[string]bool{}
	for _, id := range ids {
		inst, ok := c.Inst[id]
		if !ok || inst.State == "terminated" {
			return fail("Invalid Instance ID(s): [" + id + "] specified")
		}
		if seen[id] {
			return fail("Duplicate instance id " + id)
		}
		seen[id] = true
		if inst.ASG != "" {
			return fail(fmt.Sprintf("Instance %s is already part of AutoScalingGroup %s", id, inst.ASG))
		}
		if !c.running(inst) {
			return fail(fmt.Sprintf("Instance %s is not in correct state. Instance(s) must be in running state", id))
		}
	}
	if g.Desired+int64(len(ids)) > g.Max {
		return fail(fmt.Sprintf("AutoScalingGroup size would exceed max size %d", g.Max))
	}
	for _, id := range ids {
		c.Inst[id].ASG = name
		g.Instances = append(g.Instances, id)
	}
	g.Desired += int64(len(ids))
	ev.Applied = true
	if k == FAfterEffect {
		err := awsErr(FServerErr, "AttachInstances")
		ev.Err, ev.Injected = err.Error(), true
		return nil, err
	}
	return &autoscaling.AttachInstancesOutput{}, nil
}

func (s *ASGService) CreateOrUpdateTags(in *autoscaling.CreateOrUpdateTagsInput) (*autoscaling.CreateOrUpdateTagsOutput, error) {
	c := s.C
	ev := c.J.Add(&Event{API: AwsTags})
	if k := c.Faults.next(AwsTags, ""); k != FNone {
		err := awsErr(k, "CreateOrUpdateTags")
		ev.Err, ev.Injected = err.Error(), true
		return nil, err
	}
	for _, t := range in.Tags {
		name := awsapi.StringValue(t.ResourceId)
		ev.Target = name
		if g, ok := c.ASGs[name]; ok {
			if g.Tags == nil {
				g.Tags = map[string]string{}
			}
			g.Tags[awsapi.StringValue(t.Key)] = awsapi.StringValue(t.Value)
			ev.Applied = true
		}
	}
	return &autoscaling.CreateOrUpdateTagsOutput{}, nil
}

// ---- EC2 -----------------------------------------------------------------------------

func (c *Cloud) running(in *Instance) bool {
	if in.State == "terminated" {
		return false
	}
	if in.State == "pending" && in.ReadyAt >= 0 && time.Now().UnixNano() >= in.ReadyAt {
		in.State = "running"
	}
	return in.State == "running"
}

func (s *EC2Service) CreateFleet(in *ec2.CreateFleetInput) (*ec2.CreateFleetOutput, error) {
	c := s.C
	fr := &FleetReq{Type: awsapi.StringValue(in.Type)}
	if t := in.TargetCapacitySpecification; t != nil {
		fr.Total = awsapi.Int64Value(t.TotalTargetCapacity)
		fr.DefaultType = awsapi.StringValue(t.DefaultTargetCapacityType)
	}
	if o := in.OnDemandOptions; o != nil {
		fr.OnDemandMin = o.MinTargetCapacity
		fr.SingleType = o.SingleInstanceType
	}
	if o := in.SpotOptions; o != nil {
		fr.SpotMin = o.MinTargetCapacity
		fr.SingleType = o.SingleInstanceType
	}
	for _, ltc := range in.LaunchTemplateConfigs {
		if ltc.LaunchTemplateSpecification != nil {
			fr.TemplateID = awsapi.StringValue(ltc.LaunchTemplateSpecification.LaunchTemplateId)
			fr.TemplateVer = awsapi.StringValue(ltc.LaunchTemplateSpecification.Version)
		}
		for _, o := range ltc.Overrides {
			fr.Overrides = append(fr.Overrides, awsapi.StringValue(o.SubnetId)+"|"+awsapi.StringValue(o.InstanceType))
		}
	}
	fr.Tagged = len(in.TagSpecifications) > 0
	ev := c.J.Add(&Event{API: AwsFleet, Fleet: fr})
	if k := c.Faults.next(AwsFleet, ""); k != FNone {
		err := awsErr(k, "CreateFleet")
		ev.Err, ev.Injected = err.Error(), true
		return nil, err
	}
	out := &ec2.CreateFleetOutput{FleetId: awsapi.String(fmt.Sprintf("fleet-%d", len(c.J.Events)))}
	if c.Fleet.FailMessage != "" {
		out.Errors = []*ec2.CreateFleetError{{ErrorCode: awsapi.String("InsufficientInstanceCapacity"), ErrorMessage: awsapi.String(c.Fleet.FailMessage)}}
		ev.Note = "fleet returned errors only"
		return out, nil
	}
	if c.Fleet.Empty {
		ev.Note = "fleet returned neither instances nor errors"
		return out, nil
	}
	if fr.Total <= 0 {
		err := awserr.New("InvalidParameterValue", "TotalTargetCapacity must be positive", nil)
		ev.Err = err.Error()
		return nil, err
	}
	az := "us-east-1a"
	now := time.Now()
	lifecycle := fr.DefaultType
	ids := make([]string, 0, fr.Total)
	give := fr.Total
	if c.Fleet.Short > 0 && give > 1 {
		if give -= c.Fleet.Short; give < 1 {
			give = 1
		}
	}
	for i := int64(0); i < give; i++ {
		inst := &Instance{ID: c.NewInstanceID("f"), AZ: az, Launch: now, State: "pending", Lifecycle: lifecycle, FromFleet: true}
		if c.Fleet.ReadyAfter < 0 {
			inst.ReadyAt = -1
		} else {
			inst.ReadyAt = now.Add(c.Fleet.ReadyAfter).UnixNano()
		}
		c.Inst[inst.ID] = inst
		ids = append(ids, inst.ID)
	}
	groups := c.Fleet.Groups
	if groups < 1 {
		groups = 1
	}
	if groups > len(ids) {
		groups = len(ids)
	}
	per := (len(ids) + groups - 1) / groups
	for i := 0; i < len(ids); i += per {
		j := i + per
		if j > len(ids) {
			j = len(ids)
		}
		out.Instances = append(out.Instances, &ec2.CreateFleetInstance{
			InstanceIds: awsapi.StringSlice(ids[i:j]),
			Lifecycle:   awsapi.String(lifecycle),
		})
	}
	if c.Fleet.WithErrors {
		out.Errors = []*ec2.CreateFleetError{{ErrorCode: awsapi.String("UnfulfillableCapacity"), ErrorMessage: awsapi.String("one override could not be fulfilled")}}
	}
	fr.Returned = ids
	fr.ReturnedGroups = len(out.Instances)
	ev.Applied = true
	return out, nil
}

func (s *EC2Service) DescribeInstanceStatusPages(in *ec2.DescribeInstanceStatusInput, fn func(*ec2.DescribeInstanceStatusOutput, bool) bool) error {
	c := s.C
	ids := awsapi.StringValueSlice(in.InstanceIds)
	ev := c.J.Add(&Event{API: AwsStatus, IDs: ids})
	if k := c.Faults.next(AwsStatus, ""); k != FNone {
		err := awsErr(k, "DescribeInstanceStatus")
		ev.Err, ev.Injected = err.Error(), true
		return err
	}
	for _, id := range ids {
		if _, ok := c.Inst[id]; !ok {
			err := awserr.New("InvalidInstanceID.NotFound", "The instance ID '"+id+"' does not exist", nil)
			ev.Err = err.Error()
			return err
		}
	}
	page := c.Fleet.PageSize
	if page < 1 {
		page = 50
	}
	if len(ids) == 0 {
		fn(&ec2.DescribeInstanceStatusOutput{}, true)
		return nil
	}
	for i := 0; i < len(ids); i += page {
		j := i + page
		if j > len(ids) {
			j = len(ids)
		}
		out := &ec2.DescribeInstanceStatusOutput{}
		for _, id := range ids[i:j] {
			inst := c.Inst[id]
			state := inst.State
			if c.running(inst) {
				state = "running"
			}
			out.InstanceStatuses = append(out.InstanceStatuses, &ec2.InstanceStatus{
				InstanceId:    awsapi.String(id),
				InstanceState: &ec2.InstanceState{Name: awsapi.String(state)},
			})
		}
		if !fn(out, j == len(ids)) {
			break
		}
	}
	return nil
}

func (s *EC2Service) DescribeInstances(in *ec2.DescribeInstancesInput) (*ec2.DescribeInstancesOutput, error) {
	c := s.C
	ids := awsapi.StringValueSlice(in.InstanceIds)
	ev := c.J.Add(&Event{API: AwsDescIns, IDs: ids})
	if k := c.Faults.next(AwsDescIns, ""); k != FNone {
		err := awsErr(k, "DescribeInstances")
		ev.Err, ev.Injected = err.Error(), true
		return nil, err
	}
	out := &ec2.DescribeInstancesOutput{}
	for _, id := range ids {
		inst, ok := c.Inst[id]
		if !ok {
			code := "InvalidInstanceID.NotFound"
			if !strings.HasPrefix(id, "i-") {
				code = "InvalidInstanceID.Malformed"
			}
			err := awserr.New(code, "The instance ID '"+id+"' does not exist", nil)
			ev.Err = err.Error()
			return nil, err
		}
		lt := inst.Launch
		out.Reservations = append(out.Reservations, &ec2.Reservation{Instances: []*ec2.Instance{{
			InstanceId: awsapi.String(id),
			LaunchTime: &lt,
			State:      &ec2.InstanceState{Name: awsapi.String(inst.State)},
		}}})
	}
	return out, nil
}

func (s *EC2Service) TerminateInstances(in *ec2.TerminateInstancesInput) (*ec2.TerminateInstancesOutput, error) {
	c := s.C
	ids := awsapi.StringValueSlice(in.InstanceIds)
	ev := c.J.Add(&Event{API: AwsTermIns, IDs: ids})
	k := c.Faults.next(AwsTermIns, "")
	if k != FNone && k != FAfterEffect {
		err := awsErr(k, "TerminateInstances")
		ev.Err, ev.Injected = err.Error(), true
		return nil, err
	}
	if len(ids) > 1000 {
		err := awserr.New("InvalidParameterValue", fmt.Sprintf("Value of 'instanceIds' has %d members; the maximum is 1000", len(ids)), nil)
		ev.Err = err.Error()
		return nil, err
	}
	for _, id := range ids {
		if _, ok := c.Inst[id]; !ok {
			err := awserr.New("InvalidInstanceID.NotFound", "The instance ID '"+id+"' does not exist", nil)
			ev.Err = err.Error()
			return nil, err
		}
	}
	out := &ec2.TerminateInstancesOutput{}
	for _, id := range ids {
		inst := c.Inst[id]
		c.removeFromASG(inst)
		inst.State = "terminated"
		out.TerminatingInstances = append(out.TerminatingInstances, &ec2.InstanceStateChange{InstanceId: awsapi.String(id)})
	}
	ev.Applied = true
	if k == FAfterEffect {
		err := awsErr(FServerErr, "TerminateInstances")
		ev.Err, ev.Injected = err.Error(), true
		return nil, err
	}
	return out, nil
}
