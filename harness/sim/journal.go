// Package sim is the simulated environment escalator runs against: a stateful
// Kubernetes node/pod store behind a fake clientset, snapshot listers, a stateful
// AWS (auto-scaling + EC2), a fault plan and an append-only journal of every call
// that crosses the client boundary.
package sim

import (
	"fmt"
	"strings"
	"time"

	v1 "k8s.io/api/core/v1"
)

// API names used in the journal.
const (
	ListPods   = "list.pods"
	ListNodes  = "list.nodes"
	K8sGet     = "k8s.get"
	K8sUpdate  = "k8s.update"
	K8sDelete  = "k8s.delete"
	K8sOther   = "k8s.other"
	AwsDescASG = "aws.DescribeAutoScalingGroups"
	AwsSetDes  = "aws.SetDesiredCapacity"
	AwsTermASG = "aws.TerminateInstanceInAutoScalingGroup"
	AwsAttach  = "aws.AttachInstances"
	AwsTags    = "aws.CreateOrUpdateTags"
	AwsFleet   = "aws.CreateFleet"
	AwsStatus  = "aws.DescribeInstanceStatusPages"
	AwsDescIns = "aws.DescribeInstances"
	AwsTermIns = "aws.TerminateInstances"
	AwsOther   = "aws.other"
)

// Event is one call observed at the client boundary.
type Event struct {
	Seq    int    `json:"seq"`
	Scan   int    `json:"scan"`
	VTime  int64  `json:"vtime_ns"` // virtual clock, unix nanoseconds, read when the call arrived
	API    string `json:"api"`
	Target string `json:"target,omitempty"` // node name, ASG name or instance id
	Group  int    `json:"group"`            // index of the node-group segment of the scan (-1 before the first group)

	// Kubernetes writes
	Sent   *v1.Node `json:"-"` // body of an update as sent
	Before *v1.Node `json:"-"` // stored object when the call arrived (nil if absent)
	Resource string `json:"resource,omitempty"`
	Verb     string `json:"verb,omitempty"`

	// AWS arguments
	Desired   int64    `json:"desired,omitempty"`
	IDs       []string `json:"ids,omitempty"`
	Decrement *bool    `json:"decrement,omitempty"`
	ASGs      []string `json:"asgs,omitempty"`
	Fleet     *FleetReq `json:"fleet,omitempty"`
	// state of the simulated cloud group when the call arrived
	CloudDesired int64 `json:"cloud_desired,omitempty"`
	CloudMin     int64 `json:"cloud_min,omitempty"`
	CloudMax     int64 `json:"cloud_max,omitempty"`

	Count    int    `json:"count,omitempty"` // objects returned by a list
	Err      string `json:"err,omitempty"`
	Injected bool   `json:"injected,omitempty"` // the error (or crash) was injected by the fault plan
	Applied  bool   `json:"applied,omitempty"`  // the call changed simulated state
	Note     string `json:"note,omitempty"`
}

// FleetReq is the part of a CreateFleet request the monitors look at.
type FleetReq struct {
	Type           string   `json:"type"`
	Total          int64    `json:"total"`
	DefaultType    string   `json:"default_type"`
	OnDemandMin    *int64   `json:"on_demand_min,omitempty"`
	SpotMin        *int64   `json:"spot_min,omitempty"`
	SingleType     *bool    `json:"single_type,omitempty"`
	TemplateID     string   `json:"template_id"`
	TemplateVer    string   `json:"template_version"`
	Overrides      []string `json:"overrides,omitempty"` // subnet|instanceType
	Tagged         bool     `json:"tagged"`
	Returned       []string `json:"returned,omitempty"`
	ReturnedGroups int      `json:"returned_groups,omitempty"`
}

func (e *Event) IsWrite() bool {
	switch e.API {
	case K8sUpdate, K8sDelete, K8sOther, AwsSetDes, AwsTermASG, AwsAttach, AwsFleet, AwsTermIns, AwsOther:
		return true
	}
	return false
}

func (e *Event) OK() bool { return e.Err == "" }

func (e *Event) String() string {
	var b strings.Builder
	fmt.Fprintf(&b, "#%d s%d g%d t=%s %s", e.Seq, e.Scan, e.Group, time.Unix(0, e.VTime).UTC().Format("15:04:05"), e.API)
	if e.Target != "" {
		fmt.Fprintf(&b, " %s", e.Target)
	}
	switch e.API {
	case AwsSetDes:
		fmt.Fprintf(&b, " desired=%d (cloud %d in [%d,%d])", e.Desired, e.CloudDesired, e.CloudMin, e.CloudMax)
	case AwsTermASG:
		fmt.Fprintf(&b, " decrement=%v (cloud %d in [%d,%d])", e.Decrement != nil && *e.Decrement, e.CloudDesired, e.CloudMin, e.CloudMax)
	case AwsAttach, AwsTermIns, AwsStatus, AwsDescIns:
		if len(e.IDs) <= 4 {
			fmt.Fprintf(&b, " ids=%v", e.IDs)
		} else {
			fmt.Fprintf(&b, " ids=%d[%s..%s]", len(e.IDs), e.IDs[0], e.IDs[len(e.IDs)-1])
		}
	case AwsFleet:
		if e.Fleet != nil {
			fmt.Fprintf(&b, " total=%d type=%s returned=%d/%d groups", e.Fleet.Total, e.Fleet.Type, len(e.Fleet.Returned), e.Fleet.ReturnedGroups)
		}
	case K8sUpdate:
		if e.Sent != nil {
			fmt.Fprintf(&b, " taints=%s", TaintsString(e.Sent.Spec.Taints))
		}
	case ListPods, ListNodes:
		fmt.Fprintf(&b, " n=%d", e.Count)
	}
	if e.Err != "" {
		fmt.Fprintf(&b, " ERR(%s)", e.Err)
		if e.Injected {
			b.WriteString("[injected]")
		}
	}
	if e.Note != "" {
		fmt.Fprintf(&b, " {%s}", e.Note)
	}
	return b.String()
}

func TaintsString(ts []v1.Taint) string {
	parts := make([]string, 0, len(ts))
	for _, t := range ts {
		parts = append(parts, fmt.Sprintf("%s=%s:%s", t.Key, t.Value, t.Effect))
	}
	return "[" + strings.Join(parts, ",") + "]"
}

// Journal is the append-only log. Escalator is single threaded on the paths
// the virtual-time harness drives, so no locking is needed there; the race
// harness uses its own synchronised recorder.
type Journal struct {
	Events []*Event
	scan   int
	group  int
}

func (j *Journal) BeginScan(n int) { j.scan = n; j.group = -1 }
func (j *Journal) EndScan()        { j.group = -1 }
func (j *Journal) NextGroup()      { j.group++ }
func (j *Journal) CurGroup() int   { return j.group }

func (j *Journal) Add(e *Event) *Event {
	e.Seq = len(j.Events)
	e.Scan = j.scan
	e.Group = j.group
	e.VTime = time.Now().UnixNano()
	j.Events = append(j.Events, e)
	return e
}

// Since returns the events with Seq >= from.
func (j *Journal) Since(from int) []*Event { return j.Events[from:] }
