package sim

import (
	"errors"
	"fmt"

	"github.com/aws/aws-sdk-go/aws/awserr"
	apierrors "k8s.io/apimachinery/pkg/api/errors"
	"k8s.io/apimachinery/pkg/runtime/schema"
)

// FaultKind is what the fault plan does to a call.
type FaultKind int

const (
	FNone FaultKind = iota
	FNotFound
	FConflict
	FServerErr
	FThrottle
	FValidation
	FAfterEffect // the call takes effect, then an error is returned (lost reply)
	FCrash       // the controller process dies at this call (before it takes effect)
	// the scan's first DescribeAutoScalingGroups call (the refresh) succeeds but leaves out one of the requested
	// groups (the first / the last of the sorted names); on any other call these two kinds inject nothing
	FOmitFirst
	FOmitLast
)

func (k FaultKind) String() string {
	return [...]string{"none", "notfound", "conflict", "servererr", "throttle", "validation", "aftereffect", "crash", "omitfirst", "omitlast"}[k]
}

// CrashSignal is the panic value used to simulate the process dying inside a scan.
type CrashSignal struct{ At int }

// FaultPlan decides, per call of the current scan, whether to inject a failure.
// Call ordinals count every faultable call (lists, k8s calls, AWS calls) of the scan.
type FaultPlan struct {
	ByIndex map[int]FaultKind
	ByNode  map[string]FaultKind // every k8s get/update/delete naming this node
	ByAPI   map[string]FaultKind // every call of this API
	ByNodeUpdate map[string]FaultKind // every k8s update naming this node (reads succeed)
	Ordinal map[string]map[int]FaultKind // the k-th (1-based) call of an API
	counter int
	perAPI  map[string]int
	Hits    int
}

func (p *FaultPlan) Reset() { p.counter = 0; p.Hits = 0; p.perAPI = map[string]int{} }

// Calls returns how many faultable calls were seen since Reset.
func (p *FaultPlan) Calls() int { return p.counter }

func (p *FaultPlan) Empty() bool {
	return p == nil || (len(p.ByIndex) == 0 && len(p.ByNode) == 0 && len(p.ByAPI) == 0 && len(p.Ordinal) == 0 && len(p.ByNodeUpdate) == 0)
}

func (p *FaultPlan) next(api, target string) FaultKind {
	if p == nil {
		return FNone
	}
	idx := p.counter
	p.counter++
	if p.perAPI == nil {
		p.perAPI = map[string]int{}
	}
	p.perAPI[api]++
	k := FNone
	if f, ok := p.Ordinal[api][p.perAPI[api]]; ok {
		k = f
	} else if f, ok := p.ByIndex[idx]; ok {
		k = f
	} else if f, ok := p.ByAPI[api]; ok {
		k = f
	} else if f, ok := p.ByNode[target]; ok && (api == K8sGet || api == K8sUpdate || api == K8sDelete) {
		k = f
	} else if f, ok := p.ByNodeUpdate[target]; ok && api == K8sUpdate {
		k = f
	}
	if (k == FOmitFirst || k == FOmitLast) && !(api == AwsDescASG && p.perAPI[api] == 1) {
		k = FNone
	}
	if k != FNone {
		p.Hits++
	}
	if k == FCrash {
		panic(CrashSignal{At: idx})
	}
	return k
}

func k8sErr(k FaultKind, resource, name string) error {
	gr := schema.GroupResource{Resource: resource}
	switch k {
	case FNotFound:
		return apierrors.NewNotFound(gr, name)
	case FConflict:
		return apierrors.NewConflict(gr, name, errors.New("injected: the object has been modified"))
	case FThrottle:
		return apierrors.NewTooManyRequests("injected: too many requests", 1)
	default:
		return apierrors.NewInternalError(errors.New("injected: internal error"))
	}
}

func awsErr(k FaultKind, api string) error {
	switch k {
	case FThrottle:
		return awserr.New("Throttling", "injected: rate exceeded for "+api, nil)
	case FValidation:
		return awserr.New("ValidationError", "injected: validation error for "+api, nil)
	default:
		return awserr.New("InternalFailure", fmt.Sprintf("injected: %s failed", api), nil)
	}
}
