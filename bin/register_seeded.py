#!/usr/bin/env python3
"""register_seeded.py <spec.json>: store confirmed seeded changes under seeded/<id>/ (patch.diff, demo_test.go, notes.md, meta.json).
spec: list of {src_root, src, n, prop, id, round, summary, needs, confirmed, detection_first, strengthened}"""
import json, os, re, shutil, sys
root = os.path.dirname(os.path.dirname(os.path.abspath(__file__)))
for e in json.load(open(sys.argv[1])):
    src = os.path.join(e["src_root"], "out", e["src"]); n = e["n"]
    dst = os.path.join(root, "seeded", e["id"]); os.makedirs(dst, exist_ok=True)
    shutil.copy(os.path.join(src, "patch%d.diff" % n), os.path.join(dst, "patch.diff"))
    shutil.copy(os.path.join(src, "demo%d_test.go" % n), os.path.join(dst, "demo_test.go"))
    shutil.copy(os.path.join(src, "notes%d.md" % n), os.path.join(dst, "notes.md"))
    demo = open(os.path.join(dst, "demo_test.go")).read()
    pkg = re.search(r"^package (\w+)", demo, re.M)
    meta = {
        "id": e["id"], "breaks_property": e["prop"], "round": e["round"],
        "origin": "written by a sub-agent given two to four property texts, a theme, and its own scratch worktree of /repo (nothing from /verif); the agent named the property it breaks",
        "files": ["demo_test.go", "notes.md", "patch.diff", "meta.json"],
        "summary": e["summary"], "needs_short": [e["needs"]], "needs_to_manifest": [e["needs"]],
        "demo": {"package": pkg.group(1) if pkg else None, "how": "copy demo_test.go into the package directory and run go test -vet=off -count=1 -run Demo (add -tags verif if the file carries that build tag)"},
        "confirmed_in_scratch_worktree": e["confirmed"],
        "what_was_run": ["WTROOT=%s bin/confirm_mutant %s %d" % (e["src_root"], e["src"], n), "bin/mutate2 patch.diff %s  (applied to a scratch worktree of /repo via VERIF_REPO)" % e["prop"]],
        "detection": {"check": e["prop"], "tier": "quick", "result": "CAUGHT", "first_violation": e.get("violation", "")},
    }
    if e.get("strengthened"):
        meta["strengthened"] = True
        meta["first_pass"] = "MISSED at first; caught after the strengthening described in DESIGN.md section 11"
    json.dump(meta, open(os.path.join(dst, "meta.json"), "w"), indent=1)
    print("registered", e["id"])
