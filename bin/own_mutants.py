#!/usr/bin/env python3
"""Mechanical mutants from the M lists of DESIGN.md section 4 (my own, unlike seeded/ which holds the sub-agents').

For each: apply the textual replacement to /repo, build, run the repository's test suite (a mutant the suite
already kills is recorded as such), run the quick check of the property, undo.  Results go to
mutants-own/RESULTS.md.  Usage: bin/own_mutants.py [id-prefix ...]"""
import os
import subprocess
import sys

REPO = os.environ.get("VERIF_REPO", "/repo")
ENV = dict(os.environ, GOFLAGS="-mod=mod", GOPROXY="off", GOSUMDB="off", GOTOOLCHAIN="local", VERIF_REPO=REPO)

M = [
    # id, property, file, old, new, description
    ("C01-a", "C01", "pkg/controller/scale_down.go", "if now.Sub(*taintedTime) > opts.nodeGroup.Opts.SoftDeleteGracePeriodDuration() {", "if now.Sub(*taintedTime) >= opts.nodeGroup.Opts.SoftDeleteGracePeriodDuration() {", "soft grace: > becomes >="),
    ("C01-b", "C01", "pkg/controller/scale_down.go", "|| now.Sub(*taintedTime) > opts.nodeGroup.Opts.HardDeleteGracePeriodDuration() {", "|| now.Sub(*taintedTime) >= opts.nodeGroup.Opts.HardDeleteGracePeriodDuration() {", "hard grace: > becomes >="),
    ("C01-c", "C01", "pkg/controller/scale_down.go", "if k8s.NodeEmpty(candidate, opts.nodeGroup.NodeInfoMap) || now.Sub", "if true || now.Sub", "emptiness conjunct dropped"),
    ("C01-d", "C01", "pkg/k8s/taint.go", "\t\tif err != nil {\n\t\t\treturn nil, err\n\t\t}\n\t\t// time.Unix", "\t\tif err != nil {\n\t\t\ttimestamp = 0\n\t\t}\n\t\t// time.Unix", "unparsable taint value treated as time zero"),
    ("C02-a", "C02", "pkg/controller/scale_lock.go", "if time.Since(l.lockTime) < l.minimumLockDuration {", "if time.Since(l.lockTime) <= l.minimumLockDuration {", "lock release: < becomes <= (lock outlives the cool-down by one instant)"),
    ("C02-b", "C02", "pkg/controller/scale_up.go", "\t\t\topts.nodeGroup.scaleUpLock.lock(added)\n", "", "lock never taken"),
    ("C02-c", "C02", "pkg/controller/scale_lock.go", "if time.Since(l.lockTime) < l.minimumLockDuration {", "if time.Since(l.lockTime) < l.minimumLockDuration/2 {", "lock released after half the cool-down"),
    ("C03-a", "C03", "pkg/controller/scale_down.go", "nodesToRemove = len(opts.untaintedNodes) - opts.nodeGroup.Opts.MinNodes\n", "nodesToRemove = len(opts.untaintedNodes) - opts.nodeGroup.Opts.MinNodes + 1\n", "clamp off by one (one node too many)"),
    ("C03-b", "C03", "pkg/controller/scale_down.go", "if len(opts.untaintedNodes)-nodesToRemove < opts.nodeGroup.Opts.MinNodes {", "if len(opts.untaintedNodes)-nodesToRemove < opts.nodeGroup.Opts.MinNodes-1 {", "clamp triggers one node late"),
    ("C04-a", "C04", "pkg/controller/scale_up.go", "\t\tnodesToAdd = MaxNodes - TargetSize\n", "\t\tnodesToAdd = MaxNodes - TargetSize + 1\n", "clamp lands one above the bound"),
    ("C04-b", "C04", "pkg/controller/scale_up.go", "if maxNodes := int64(opts.nodeGroup.Opts.MaxNodes); maxNodes < maxSize {", "if maxNodes := int64(opts.nodeGroup.Opts.MaxNodes); maxNodes > maxSize {", "bound is max(max_nodes, cloud max)"),
    ("C05-a", "C05", "pkg/controller/util.go", "nodesNeededCPU = math.Ceil(nodeCount * (percentageNeededCPU))", "nodesNeededCPU = math.Floor(nodeCount * (percentageNeededCPU))", "ceil becomes floor (cpu)"),
    ("C05-b", "C05", "pkg/controller/util.go", "nodesNeededMem = math.Ceil(nodeCount * (percentageNeededMem))", "nodesNeededMem = math.Round(nodeCount * (percentageNeededMem))", "ceil becomes round (memory)"),
    ("C05-c", "C05", "pkg/controller/util.go", "delta := int(math.Max(nodesNeededCPU, nodesNeededMem))", "delta := int(math.Max(nodesNeededCPU, nodesNeededMem)) + 2", "two nodes too many"),
    ("C06-a", "C06", "pkg/controller/controller.go", "nodesDelta = -nodeGroup.Opts.FastNodeRemovalRate", "nodesDelta = -nodeGroup.Opts.SlowNodeRemovalRate", "fast band uses the slow rate"),
    ("C06-b", "C06", "pkg/controller/controller.go", "case maxPercent < float64(nodeGroup.Opts.TaintLowerCapacityThresholdPercent):", "case maxPercent <= float64(nodeGroup.Opts.TaintLowerCapacityThresholdPercent):", "lower threshold: < becomes <="),
    ("C06-c", "C06", "pkg/controller/controller.go", "maxPercent := math.Max(cpuPercent, memPercent)", "maxPercent := math.Min(cpuPercent, memPercent)", "min(cpu,mem) drives decisions"),
    ("C06-d", "C06", "pkg/controller/controller.go", "case maxPercent < float64(nodeGroup.Opts.TaintUpperCapacityThresholdPercent):", "case maxPercent <= float64(nodeGroup.Opts.TaintUpperCapacityThresholdPercent):", "upper threshold: < becomes <="),
    ("C06-e", "C06", "pkg/controller/controller.go", "len(untaintedNodes) != nodeGroup.Opts.MinNodes || len(untaintedNodes) == 0 || len(taintedNodes) > 0", "len(untaintedNodes) == 0 || len(taintedNodes) > 0", "max_node_age fires away from the minimum"),
    ("C07-a", "C07", "pkg/controller/scale_up.go", "sorted := make(nodesByNewestCreationTime, 0, len(nodes))", "sorted := make(nodesByOldestCreationTime, 0, len(nodes))", "untaints oldest first"),
    ("C07-b", "C07", "pkg/controller/scale_up.go", "\tuntainted, err := c.scaleUpUntaint(opts)\n", "\tuntainted, err := 0, error(nil)\n\tif len(opts.taintedNodes) > opts.nodesDelta {\n\t\tuntainted, err = c.scaleUpUntaint(opts)\n\t}\n", "tainted pool used only when it covers the whole need"),
    ("C08-a", "C08", "pkg/controller/sort.go", "func (n nodesByOldestCreationTime) Less(i, j int) bool {\n\treturn n[i].node.CreationTimestamp.Before(&n[j].node.CreationTimestamp)", "func (n nodesByOldestCreationTime) Less(i, j int) bool {\n\treturn n[j].node.CreationTimestamp.Before(&n[i].node.CreationTimestamp)", "newest first"),
    ("C08-b", "C08", "pkg/controller/scale_down.go", "\tsort.Sort(sorted)\n\n\ttaintedIndices", "\tsort.Sort(sorted[:0])\n\n\ttaintedIndices", "no sort before tainting"),
    ("C09-a", "C09", "pkg/controller/controller.go", "\t\t\t\tcordonedNodes = append(cordonedNodes, node)\n\t\t\t\tcontinue\n", "\t\t\t\tcordonedNodes = append(cordonedNodes, node)\n", "cordoned nodes fall through to the taint classification"),
    ("C10-a", "C10", "pkg/controller/scale_down.go", "if key == NodeEscalatorIgnoreAnnotation && val != \"\" {", "if key == NodeEscalatorIgnoreAnnotation && val == \"\" {", "protection inverted"),
    ("C10-b", "C10", "pkg/controller/scale_down.go", "Removing from deletion options\", candidate.Name, NodeEscalatorIgnoreAnnotation, why)\n\t\t\tcontinue", "Removing from deletion options\", candidate.Name, NodeEscalatorIgnoreAnnotation, why)\n\t\t\tbreak", "a protected node ends the reaper loop (holds back others)"),
    ("C11-a", "C11", "pkg/controller/scale_up.go", "\t\tif !drymode {\n\t\t\terr := cloudProviderNodeGroup.IncreaseSize(nodesToAdd)", "\t\tif true {\n\t\t\terr := cloudProviderNodeGroup.IncreaseSize(nodesToAdd)", "dry guard removed at the cloud increase"),
    ("C11-b", "C11", "pkg/controller/scale_down.go", "\t\t// only actually taint in dry mode\n\t\tif !c.dryMode(nodeGroup) {\n\t\t\tlog.WithField(\"drymode\", \"off\").WithField(\"nodegroup\", nodeGroup.Opts.Name).Infof(\"Tainting", "\t\t// only actually taint in dry mode\n\t\tif true {\n\t\t\tlog.WithField(\"drymode\", \"off\").WithField(\"nodegroup\", nodeGroup.Opts.Name).Infof(\"Tainting", "dry guard removed at tainting"),
    ("C11-c", "C11", "pkg/controller/controller.go", "return c.Opts.DryMode || nodeGroup.Opts.DryMode", "return nodeGroup.Opts.DryMode", "global dry flag ignored"),
    ("C11-d", "C11", "pkg/controller/scale_down.go", "\t\t\t\tif !drymode {\n\t\t\t\t\ttoBeDeleted = append(toBeDeleted, candidate)\n\t\t\t\t}\n\t\t\t} else {\n\t\t\t\tnodePodsRemaining", "\t\t\t\tif true {\n\t\t\t\t\ttoBeDeleted = append(toBeDeleted, candidate)\n\t\t\t\t}\n\t\t\t} else {\n\t\t\t\tnodePodsRemaining", "dry guard removed at the reaper"),
    ("C12-a", "C12", "pkg/controller/scale_up.go", "cloudProviderNodeGroup, ok := c.cloudProvider.GetNodeGroup(opts.nodeGroup.Opts.CloudProviderGroupName)\n\tif !ok {\n\t\treturn 0, fmt.Errorf(\"cloud provider node group does not exist: %s\", opts.nodeGroup.Opts.CloudProviderGroupName)\n\t}\n\n\tnodegroupName", "cloudProviderNodeGroup, ok := c.cloudProvider.GetNodeGroup(c.Opts.NodeGroups[0].CloudProviderGroupName)\n\tif !ok {\n\t\treturn 0, fmt.Errorf(\"cloud provider node group does not exist: %s\", opts.nodeGroup.Opts.CloudProviderGroupName)\n\t}\n\n\tnodegroupName", "scale-up always resizes the first group's cloud group"),
    ("C12-b", "C12", "pkg/controller/controller.go", "\t\t\tdefault:\n\t\t\t\tlog.Warn(err)\n\t\t\t}\n", "\t\t\tdefault:\n\t\t\t\tlog.Warn(err)\n\t\t\t\treturn nil\n\t\t\t}\n", "a non-fatal error in one group ends the scan"),
    ("C13-a", "C13", "pkg/k8s/scheduler/types.go", "\t\t\tr.Memory = max(r.Memory, rQuantity.Value())", "\t\t\tr.Memory += rQuantity.Value()", "init container memory summed instead of max"),
    ("C13-b", "C13", "pkg/k8s/util.go", "ret.Total.MilliCPU += node.Status.Allocatable.Cpu().MilliValue()", "ret.Total.MilliCPU += node.Status.Allocatable.Cpu().Value() * 1000", "capacity from whole cores"),
    ("C13-c", "C13", "pkg/k8s/scheduler/types.go", "\tif pod.Spec.Overhead != nil {\n\t\tresource.Add(pod.Spec.Overhead)\n\t}\n", "", "overhead dropped"),
    ("C14-a", "C14", "pkg/controller/node_group.go", "if expression.Operator == v1.NodeSelectorOpIn {", "if expression.Operator == v1.NodeSelectorOpIn || expression.Operator == v1.NodeSelectorOpNotIn {", "NotIn accepted"),
    ("C14-b", "C14", "pkg/controller/node_group.go", "\t\t// filter out static pods\n\t\tif k8s.PodIsStatic(pod) {\n\t\t\treturn false\n\t\t}\n", "", "static pods counted in the default group"),
    ("C15-a", "C15", "pkg/k8s/taint.go", "updatedNode.Spec.Taints = append(updatedNode.Spec.Taints, apiv1.Taint{", "updatedNode.Spec.Taints = append([]apiv1.Taint{}, apiv1.Taint{", "foreign taints dropped when tainting"),
    ("C15-b", "C15", "pkg/k8s/taint.go", "\tif taintExists {\n\t\tlog.Debugf", "\tif taintExists && false {\n\t\tlog.Debugf", "already-tainted check removed (re-stamp)"),
    ("C15-c", "C15", "pkg/k8s/taint.go", "\t\tValue:  fmt.Sprint(time.Now().Unix()),", "\t\tValue:  fmt.Sprint(time.Now().UnixMilli()),", "taint value in milliseconds"),
    ("C15-d", "C15", "pkg/k8s/taint.go", "\tupdatedNode.Spec.Taints = append(updatedNode.Spec.Taints, apiv1.Taint{\n\t\tKey:    ToBeRemovedByAutoscalerKey,\n\t\tValue:  fmt.Sprint(time.Now().Unix()),\n\t\tEffect: effect,\n\t})\n", "\tupdatedNode.Spec.Taints = append(updatedNode.Spec.Taints, apiv1.Taint{\n\t\tKey:    ToBeRemovedByAutoscalerKey,\n\t\tValue:  fmt.Sprint(time.Now().Unix()),\n\t\tEffect: effect,\n\t})\n\tnode.Spec.Taints = updatedNode.Spec.Taints\n", "cached (lister-owned) node updated in place as well"),
    ("C16-a", "C16", "pkg/controller/node_group.go", "\tcheckThat(nodegroup.TaintLowerCapacityThresholdPercent < nodegroup.TaintUpperCapacityThresholdPercent,\n\t\t\"taint_lower_capacity_threshold_percent must be less than taint_upper_capacity_threshold_percent\")\n", "", "lower<upper check deleted"),
    ("C16-b", "C16", "pkg/controller/node_group.go", "`json:\"fast_node_removal_rate,omitempty\"", "`json:\"fast_node_removal_rates,omitempty\"", "json tag typo"),
    ("C16-c", "C16", "cmd/main.go", "\t\tif len(errs) > 0 {\n\t\t\tlog.WithField(\"nodegroup\", nodegroup.Name).Error(\"Validating options: [FAIL]\")", "\t\tif len(errs) > 1 {\n\t\t\tlog.WithField(\"nodegroup\", nodegroup.Name).Error(\"Validating options: [FAIL]\")", "start-up gate tolerates one problem"),
    ("C16-d", "C16", "cmd/main.go", "\t\t\t\tLifecycle:                 n.AWS.Lifecycle,\n", "", "aws.lifecycle not handed to the cloud provider"),
    ("C16-e", "C16", "cmd/main.go", "\t\t\tGroupID: n.CloudProviderGroupName,", "\t\t\tGroupID: n.Name,", "cloud group id taken from the node group's name"),
    ("C16-f", "C16", "cmd/main.go", "FleetInstanceReadyTimeout: n.AWS.FleetInstanceReadyTimeoutDuration(),", "FleetInstanceReadyTimeout: nodegroups[0].AWS.FleetInstanceReadyTimeoutDuration(),", "every group gets the first group's ready timeout"),
    ("C02-e", "C02", "pkg/controller/controller.go", "\t\t\tscaleUpLock: scaleLock{\n\t\t\t\tminimumLockDuration: nodeGroupOpts.ScaleUpCoolDownPeriodDuration(),", "\t\t\tscaleUpLock: scaleLock{\n\t\t\t\tminimumLockDuration: nodeGroupOpts.SoftDeleteGracePeriodDuration(),", "NewController initialises the lock with the soft grace period instead of the cool-down"),
    ("C12-c", "C12", "pkg/controller/controller.go", "\t\t\tNodeGroupLister: client.Listers[nodeGroupOpts.Name],", "\t\t\tNodeGroupLister: client.Listers[opts.NodeGroups[0].Name],", "NewController gives every group the first group's listers"),
    ("C17-a", "C17", "pkg/cloudprovider/aws/aws.go", "return n.setASGDesiredSize(n.TargetSize() + delta)\n\n}", "return n.setASGDesiredSize(delta)\n\n}", "SetDesiredCapacity(delta)"),
    ("C17-b", "C17", "pkg/cloudprovider/aws/aws.go", "\tbatchSize = 20\n", "\tbatchSize = 21\n", "attach batches of 21"),
    ("C18-a", "C18", "pkg/cloudprovider/aws/aws.go", "\t\t\tterminate(n, append(instances, batch...))", "\t\t\tterminate(n, instances)", "failed batch forgotten"),
    ("C18-b", "C18", "pkg/cloudprovider/aws/aws.go", "\t\t\tlog.Info(\"Reached instance ready deadline but not all instances are ready\")\n\t\t\tterminate(n, instances)\n", "\t\t\tlog.Info(\"Reached instance ready deadline but not all instances are ready\")\n", "no clean-up on readiness timeout"),
    ("C19-a", "C19", "pkg/cloudprovider/aws/aws.go", "ShouldDecrementDesiredCapacity: awsapi.Bool(true),", "ShouldDecrementDesiredCapacity: awsapi.Bool(false),", "terminate without decrement"),
    ("C19-b", "C19", "pkg/cloudprovider/aws/aws.go", "\t\tif !n.Belongs(node) {", "\t\tif false && !n.Belongs(node) {", "membership check skipped"),
    ("C19-c", "C19", "pkg/cloudprovider/aws/aws.go", "\tif n.TargetSize()-int64(len(nodes)) < n.MinSize() {", "\tif n.TargetSize()-int64(len(nodes)) < n.MinSize()-1 {", "minimum check off by one"),
    ("C06-f", "C06", "pkg/controller/controller.go", "if time.Since(n.CreationTimestamp.Time) > nodeGroup.Opts.MaxNodeAgeDuration() {", "if time.Since(n.CreationTimestamp.Time) >= nodeGroup.Opts.MaxNodeAgeDuration() {", "max_node_age: > becomes >="),
    ("C06-g", "C06", "pkg/controller/controller.go", "\t\tlen(untaintedNodes) < nodeGroup.Opts.MaxNodes\n}", "\t\tlen(untaintedNodes) <= nodeGroup.Opts.MaxNodes\n}", "starve trigger also at untainted == max_nodes"),
    ("C06-h", "C06", "pkg/controller/controller.go", "return nodeGroup.Opts.ScaleOnStarve &&\n", "return (nodeGroup.Opts.ScaleOnStarve || true) &&\n", "scale_on_starve acts although the option is off"),
    ("C06-i", "C06", "pkg/controller/controller.go", "\t\tnodesDelta = int(math.Max(float64(nodesDelta), 1))\n\t}\n\n\tif c.scaleOnMaxNodeAge", "\t\tnodesDelta = int(math.Max(float64(nodesDelta), 2))\n\t}\n\n\tif c.scaleOnMaxNodeAge", "starve forces two nodes"),
    ("C06-j", "C06", "pkg/controller/controller.go", "case maxPercent > float64(nodeGroup.Opts.ScaleUpThresholdPercent):", "case maxPercent > float64(nodeGroup.Opts.ScaleUpThresholdPercent)+0.5:", "scale-up threshold shifted by half a percent"),
    ("C03-c", "C03", "pkg/controller/controller.go", "\t\t\tstate.Opts.MinNodes = int(cloudProviderNodeGroup.MinSize())\n\t\t\tlog.Debugf(\"auto discovered min_nodes = %v for node group %v\", state.Opts.MinNodes, nodeGroupOpts.Name)\n\t\t\tstate.Opts.MaxNodes = int(cloudProviderNodeGroup.MaxSize())", "\t\t\tstate.Opts.MinNodes = int(cloudProviderNodeGroup.MinSize()) - 1\n\t\t\tlog.Debugf(\"auto discovered min_nodes = %v for node group %v\", state.Opts.MinNodes, nodeGroupOpts.Name)\n\t\t\tstate.Opts.MaxNodes = int(cloudProviderNodeGroup.MaxSize())", "auto-discovered minimum off by one"),
    ("C02-d", "C02", "pkg/controller/scale_lock.go", "\tl.lockTime = time.Now()\n", "\tl.lockTime = time.Now().Add(-time.Second)\n", "lock taken one second in the past (released one second early)"),
    ("C01-e", "C01", "pkg/controller/scale_down.go", "\tfor _, candidate := range opts.forceTaintedNodes {\n\t\tif k8s.NodeEmpty(candidate, opts.nodeGroup.NodeInfoMap) {", "\tfor _, candidate := range opts.forceTaintedNodes {\n\t\tif pods, _ := k8s.NodePodsRemaining(candidate, opts.nodeGroup.NodeInfoMap); pods <= 1 {", "force removal tolerates one remaining pod"),
    ("C13-d", "C13", "pkg/controller/controller.go", "nodeCapacity, err := k8s.CalculateNodesCapacity(untaintedNodes, pods)", "nodeCapacity, err := k8s.CalculateNodesCapacity(append(untaintedNodes, taintedNodes...), pods)", "tainted nodes counted as capacity"),
    ("C09-b", "C09", "pkg/controller/controller.go", "\t\t\tif node.Spec.Unschedulable {\n", "\t\t\tif node.Spec.Unschedulable && len(node.Spec.Taints) == 0 {\n", "only untainted cordoned nodes are set aside"),
    ("C20-a", "C20", "pkg/controller/node_group.go", "\tif pod.Spec.Affinity != nil &&\n\t\tpod.Spec.Affinity.NodeAffinity != nil &&\n", "\tif pod.Spec.Affinity != nil &&\n", "nil guard on NodeAffinity removed"),
    ("C20-b", "C20", "pkg/controller/controller.go", "\t\t\t\tlog.Error(\"Unable to get instance from cloud provider to determine registration lag, skipping \", node.Spec.ProviderID)", "\t\t\t\tlog.Fatal(\"Unable to get instance from cloud provider to determine registration lag, skipping \", node.Spec.ProviderID)", "log.Fatal on a per-node error"),
]


def sh(cmd, cwd=REPO, timeout=1800):
    p = subprocess.run(cmd, cwd=cwd, env=ENV, shell=True, stdout=subprocess.PIPE, stderr=subprocess.STDOUT, text=True, timeout=timeout)
    return p.returncode, p.stdout


def main():
    sel = sys.argv[1:]
    rows = []
    rc, out = sh("git diff --quiet")
    if rc != 0:
        print("/repo is dirty")
        sys.exit(2)
    for mid, prop, path, old, new, desc in M:
        if sel and not any(mid.startswith(s) for s in sel):
            continue
        full = os.path.join(REPO, path)
        src = open(full).read()
        if src.count(old) != 1:
            rows.append((mid, prop, desc, "SKIPPED: pattern matches %d times" % src.count(old), "", ""))
            print(rows[-1], flush=True)
            continue
        open(full, "w").write(src.replace(old, new))
        try:
            rc, out = sh("go build ./... && go vet -tags verif ./pkg/controller ./pkg/cloudprovider/aws >/dev/null 2>&1; go build -tags verif ./...")
            if rc != 0:
                rows.append((mid, prop, desc, "does not compile", "", out[-200:].replace("\n", " ")))
                continue
            rc, out = sh("go test -vet=off -count=1 ./... 2>&1 | grep -v 'no test files' | tail -5")
            suite = "passes" if "FAIL" not in out else "KILLED BY SUITE"
            rc, out = sh("bin/check %s --tier quick" % prop, cwd="/verif")
            verdict = {0: "MISSED", 1: "caught", 3: "inconclusive"}.get(rc, "error(%d)" % rc)
            first = ""
            for ln in out.splitlines():
                if ln.startswith("  ["):
                    first = ln.strip()[:160]
                    break
            rows.append((mid, prop, desc, suite, verdict, first))
        finally:
            sh("git checkout -- .")
        print(rows[-1], flush=True)
    os.makedirs("/verif/mutants-own", exist_ok=True)
    with open("/verif/mutants-own/RESULTS.md", "w" if not sel else "a") as f:
        f.write("# Mechanical mutants (from the M lists of DESIGN.md section 4) against the quick checks\n\n")
        f.write("| Mutant | Property | Change | Repository suite | Quick check | First violation |\n|---|---|---|---|---|---|\n")
        for r in rows:
            f.write("| %s | %s | %s | %s | %s | %s |\n" % tuple(str(x).replace("|", "/") for x in r))
    print("done:", sum(1 for r in rows if r[4] == "caught"), "caught of", len(rows))


if __name__ == "__main__":
    main()
