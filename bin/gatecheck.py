"""C16: observe the start-up gate at the process boundary.

The Go side (direct/c16.go, shard 0) writes gate_cases.json: configurations as YAML plus the list of
invariants each violates according to the oracle. Here the real cmd binary is built from /repo and run on
each file. Validation happens before any Kubernetes or AWS client is created, so "rejected" and "admitted"
(it goes on to fail on the missing in-cluster configuration) are distinguishable without a cluster."""
import json
import os
import subprocess

VERIF = os.path.dirname(os.path.dirname(os.path.abspath(__file__)))


def run(workdir, goenv, log):
    out = {"violations": [], "cover": {}, "evaluations": 0, "inconclusive": [], "samples": []}
    cases_path = os.path.join(workdir, "gate_cases.json")
    if not os.path.exists(cases_path):
        out["inconclusive"].append("the direct run produced no gate cases")
        return out
    binpath = os.path.join(VERIF, "bin", "escalator")
    p = subprocess.run(["go", "build", "-o", binpath, "./cmd"], cwd=os.environ.get("VERIF_REPO", "/repo"), env=goenv, stdout=subprocess.PIPE, stderr=subprocess.STDOUT, text=True)
    if p.returncode != 0:
        out["inconclusive"].append("cannot build the escalator binary: " + p.stdout[-500:])
        return out
    # the same main package with the verif tag: ESCALATOR_VERIF_DUMP_PROVIDER_CONFIG makes it print what
    # setupNodeGroups + setupCloudProvider hand to the cloud provider for the given file
    repo = os.environ.get("VERIF_REPO", "/repo")
    dumppath = os.path.join(VERIF, "bin", "escalator-verif")
    p = subprocess.run(["go", "build", "-tags", "verif", "-o", dumppath, "./cmd"], cwd=repo, env=goenv, stdout=subprocess.PIPE, stderr=subprocess.STDOUT, text=True)
    have_dump = p.returncode == 0 and os.path.exists(os.path.join(repo, "cmd", "verif_hooks.go"))
    if not have_dump:
        out["inconclusive"].append("cannot build the provider-configuration dump (cmd/verif_hooks.go): " + p.stdout[-300:])
    env = {k: v for k, v in os.environ.items() if not k.startswith("KUBERNETES_")}
    for c in json.load(open(cases_path)):
        f = os.path.join(workdir, "gate_%s.yaml" % c["name"])
        open(f, "w").write(c["yaml"])
        try:
            r = subprocess.run([binpath, "--nodegroups", f], env=env, stdout=subprocess.PIPE, stderr=subprocess.STDOUT, text=True, timeout=60)
        except subprocess.TimeoutExpired:
            out["inconclusive"].append("escalator did not exit within 60s on gate case %s" % c["name"])
            continue
        text = r.stdout
        out["evaluations"] += 1
        if c.get("provider") is not None and have_dump:
            try:
                d = subprocess.run([dumppath, "--nodegroups", f], env=dict(env, ESCALATOR_VERIF_DUMP_PROVIDER_CONFIG="1"), stdout=subprocess.PIPE, stderr=subprocess.STDOUT, text=True, timeout=60)
                got = None
                for ln in d.stdout.splitlines():
                    if ln.startswith("VERIF-PROVIDER-CONFIG "):
                        got = json.loads(ln[len("VERIF-PROVIDER-CONFIG "):])
                want = c["provider"]

                def norm(x):
                    for g in x or []:
                        if not g["AWSConfig"].get("InstanceTypeOverrides"):
                            g["AWSConfig"]["InstanceTypeOverrides"] = None
                    return x
                sig = "provider-config:groups%d" % len(want)
                out["cover"][sig] = out["cover"].get(sig, 0) + 1
                if norm(got) != norm(want):
                    diff = ""
                    if got and len(got) == len(want):
                        for a, b in zip(got, want):
                            for k in set(a["AWSConfig"]) | set(b["AWSConfig"]):
                                if a["AWSConfig"].get(k) != b["AWSConfig"].get(k):
                                    diff = k
                            for k in ("Name", "GroupID"):
                                if a.get(k) != b.get(k):
                                    diff = k
                    out["violations"].append({"property": "C16", "key": "provider-config-mismatch:" + (diff or "shape"), "case": "gate:" + c["name"], "scan": 0,
                                              "msg": "cmd/main.go builds the cloud provider with %s, the configuration file says %s" % (json.dumps(got)[:400], json.dumps(want)[:400]), "replay": f})
            except subprocess.TimeoutExpired:
                out["inconclusive"].append("provider-configuration dump did not exit on %s" % c["name"])
            if c["name"].startswith("provider-"):
                continue
        low = text.lower()
        rejected = "problems when validating" in low or "[fail]" in low
        passed = "[pass]" in low
        # past the gate escalator goes on to build its Kubernetes client, which fails here for want of a cluster
        went_on = "cluster config" in low or "kubeconfig" in low or "kubernetes_service_host" in low
        violated = c.get("violated") or []
        if rejected and not went_on:
            sig = "gate:rejected:" + (violated[0] if len(violated) == 1 else ("several" if violated else "although-safe"))
        elif went_on:
            sig = "gate:admitted" + (":unsafe" if violated else "")
        else:
            sig = "gate:other"
        if c["name"].startswith("multi-") and sig != "gate:other":
            sig += ":file-with-several-groups:" + ("all-safe" if c["name"] == "multi-all-safe" else "unsafe-at-" + c["name"].rsplit("-", 1)[-1])
        out["cover"][sig] = out["cover"].get(sig, 0) + 1
        if went_on and violated:
            out["violations"].append({"property": "C16", "key": "gate-admits-unsafe:" + violated[0], "case": "gate:" + c["name"], "scan": 0,
                                      "msg": "the escalator binary starts up (passes the validation gate%s) with a configuration violating %s" % ("" if passed else " without validating", violated),
                                      "replay": f})
        if sig.startswith("gate:other"):
            out["inconclusive"].append("gate case %s: cannot tell admitted from rejected: %s" % (c["name"], text[-300:].replace("\n", " | ")))
        if len(out["samples"]) < 2:
            out["samples"].append("gate case %s -> %s" % (c["name"], sig))
    return out
