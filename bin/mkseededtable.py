#!/usr/bin/env python3
"""Rewrites section 11 of DESIGN.md from seeded/*/meta.json."""
import json, glob, os, re
root = os.path.dirname(os.path.dirname(os.path.abspath(__file__)))
rows = []
for m in sorted(glob.glob(os.path.join(root, "seeded", "*", "meta.json"))):
    d = json.load(open(m))
    patch = open(os.path.join(os.path.dirname(m), "patch.diff")).read()
    files = sorted(set(re.findall(r"^\+\+\+ b/(\S+)", patch, re.M)))
    what = d.get("summary") or ""
    det = d["detection"]
    key = re.match(r"\[([^\]]+)\]", det.get("first_violation", ""))
    rows.append("| %s | %s | %s | %s | %s `%s` |" % (d["id"], ", ".join(f.replace("pkg/", "") for f in files), what, "; ".join(d.get("needs_short", d["needs_to_manifest"][:1]))[:230].replace("|", "/"),
                                                  det["result"].lower() + (" (after strengthening)" if d.get("strengthened") else ""), key.group(1) if key else ""))
text = """
## 11. Seeded changes: which check catches which

Eighty changes were written by forty fresh sub-agents in two rounds (`-1`,`-2` first round, `-3`,`-4` second round), each
agent given only one property's text and its own scratch worktree of /repo (nothing from /verif) and asked for two
changes that break the property, compile, pass the 320 existing tests, and need something specific to manifest; the
second round was also told which mechanisms the first round had used and asked for different ones (helpers, caches,
state kept between scans, error paths). Every change was re-confirmed by me in its worktree (`bin/confirm_mutant`:
patch applies, `go build ./...`, full suite green with the change, demonstration fails with it and passes without it)
and then run against the property's **quick** check (`bin/mutate`: `git -C /repo apply`, `bin/check <id>`,
`git -C /repo checkout -- .`). They are kept under `seeded/<property>-<n>/` (patch.diff, demo_test.go, notes.md,
meta.json). In addition `bin/own_mutants.py` applies 68 mechanical mutants, most taken from the M lists of section 4
(boundary operators, dropped guards, swapped rates ...): 66 are caught; of the remaining two one (scale_on_starve forcing two
nodes instead of one) does not contradict C06's "at least one node", the other sits in the lister wiring that the hook
replaces (`mutants-own/RESULTS.md`).

First round: 34 of 40 caught at first try. The six misses and what was strengthened: C07-2 (needs a failed 2nd
terminate of a force batch followed by a scale-up in the same scan: scale-up oracles now stay on when faults are confined
to removal calls, and the generator scripts that failure), C12-1 (cross-group counting of `NotIn`/foreign-key
expressions: generator now emits "In mine, NotIn theirs" pods; the miss itself was a global cap on recorded violations),
C12-2 (panic only when the update fails but the read succeeds: update-only failures added to the pair runs), C13-2 (int64
overflow above 84 TiB requested: large-cluster percent sweep added), C16-2 (case-insensitive lifecycle: near-miss
spellings added to the grid), C19-1 (stale cache after a partly failed batch: second request without refresh, and a
cloud-side minimum refusal is a violation), C19-2 (wrapped not-in-group error no longer fatal: exact scans with an
outsider in the reaper batch must return it).

Before the second round was tried, the generator was extended from reading the agents' reports (world changes between
escalator's read and write, stray pods of other groups on a group's nodes, in-place pod resizes, node-size changes and
drained groups, lowered cloud maxima, a failing refresh, scripted fleet failures, lagging Node garbage collection, nodes
pushing the count beyond max_nodes) and the direct checks got second calls without refresh, long-lived listers, exactly
full nodes and the third consecutive fleet failure. Second round: 35 of 40 caught at first try; the five misses: C01-3
(reaping from a stale node→pods map when the node count exceeds max_nodes: extra nodes now push groups over the
maximum), C07-3 (request *below* the remainder was not judged: `cloud-request-below-remainder` added), C07-4 (wrong taint
removed after a genuine 409: a foreign taint is now lifted between escalator's read and write of the node it updates
first; scale-up exactness extended to scans with mid-scan changes), C09-4 (remembered failed deletes hitting a cordoned
node: Nodes of terminated instances now linger for a few reconciles), C12-3 (fleet failure counter shared between
groups: `scan-aborted:` check under C12 and the fatal key now carries the failure streak of the group, so that the known
escape hatch at three failures does not mask an exit at one or two).

A third, small round asked three agents for the failure classes this technique family is specifically about: writing into
lister-owned objects (`C15-5`, `C15-6`: both caught by the cache-immutability monitor), scans that never return (`C20-5`
a goroutine deadlock - the fake-time runtime reports "all goroutines are asleep" and the child dies; `C20-6` an unbounded
retry loop - the child runs into the wall-clock limit, the case is re-run alone and dies again: reported in 9 minutes),
and unsafe concurrency (`C20-7` a fire-and-forget goroutine: the Go race detector reports the race under C15 and the
virtual-time child dies under C20; `C20-8` RunForever returning while a scan is still in flight: missed at first, the race
workload now counts API calls arriving after the loop returned).

A fourth round gave six agents a theme each (state across restarts, time arithmetic, numeric conversions, configuration
decoding, ordering and partial failure in removal, shared state between groups or scans) and three or four properties to
choose from: 7 of 12 caught at first try. The five misses: C02-5 (lock age rounded to seconds: clock advances now also land
400 ms and 1 ms before/after a boundary, so scans fall inside the last half second of a cool-down), C01-6 (taint age wraps
for times beyond 292 years ahead: far-future values inside int64 added to the external taint values), C16-5 and C16-6
(multi-document decoding and native YAML decoding: empty leading/trailing documents and keys in another letter case must
decode like the plain file, in both renderings), C19-6 (removal in slices of 25: profile `bigreap` - groups of 30-60 nodes,
whole-group taint rates, cloud minimum far above min_nodes - and a check that a batch which breaches the minimum as a whole
is not executed in part).

A fifth and a sixth round (six agents each, two changes each, themes: fleet path, starve/node-age accounting, dry mode and
cordoned nodes, pod/node attribution, the provider's cached view, error handling in the scan loop; then taint book-keeping
and selection order, grace periods and protection, lock and scale-up arithmetic, configuration decoding, bounds and the
one-shot resize path, less travelled branches) gave 24 confirmed changes, 19 caught at first try. The misses: C13-6 (pending
pods that are being deleted dropped from the request total: the multisets and the histories had no pod with a deletion
timestamp - the C13 generator now varies phase, deletion timestamp, finalizers, conditions, priority and owner, and a world
operation marks pods of a group as terminating for a few scans), C20-9 (nil dereference when a successful describe leaves a
registered group out: two new failure kinds make the scan's refresh answer without the first/last registered group, in the
histories and at call 0 of every enumerated scan; the simulated provider-cache model carries the provider's own
decrements across such a refresh), C16-7 (start-up gate looks at the last group only: the real binary is now also run on
files with three groups, the unsafe one first, in the middle and last, for every invariant class), C17-6 (IncreaseSize
starting from the number of listed instances: the grid now also has cloud groups listing more or fewer instances than they
desire). One change of the fifth round was **not kept**: it makes a not-in-group error from the *force-removal* path stop
the scan (and with it later groups), which the agent filed under C12. C19's statement says a not-in-group error makes
escalator exit rather than continue and does not except the force-removal path, so the statements do not decide which of
the two behaviours is right; the monitors treat that situation as a don't-care (section 12) and a check demanding the
present behaviour would alarm on code the statements allow.

A seventh round asked six agents for changes that are *hard to expose* (needing three or more scans with carried state, two
independent rare conditions at once, unusual but legal object shapes, order or multiplicity of things that are usually
unique, one specific odd answer of an external call, a numeric or time edge): 12 confirmed changes, four of them close
relatives of earlier ones, 10 caught at first try. The misses: C19-8 (removal request naming the same node twice: the
DeleteNodes grid now has lists with repeated entries and requires that no more decrementing terminate calls are issued than
desired − min allows), C06-8 (int64 overflow of request×100 above 92 TB: it was caught by C13's large-cluster percent sweep
but not by the C06 histories, whose groups were too small; one group in 25 now has nodes of 12-17 TB of memory, so group
totals reach 10^17-10^18 milli-bytes).

An eighth round was adversarial: six agents got all twenty statements, were told in one sentence what kind of checker they
were up against (runs the code on generated histories against simulated services, with fault injection and a virtual
clock - nothing else from /verif) and were asked for bugs such a checker would *probably miss*. 12 confirmed changes, only 4
caught at first try. Seven of the eight misses hide behind **fields of the objects that escalator never reads**, so my
generators never varied them: the nodes' `Ready` condition (C08-6, C08-7: NotReady nodes sorted first for tainting), the
`restartPolicy` of init containers (C13-8, C13-9: sidecars summed instead of max-ed), owner lists with a `controller` flag
(C14-6), whitespace-only values of the no-delete annotation (C10-7), a zero, negative or unparsable
`fleet_instance_ready_timeout` (C20-11: `NewTicker` panic); the eighth needs the cloud group to be pinned at run time to
minimum = maximum (C03-6: refresh of auto-discovered bounds kept only when min < max). All eight shapes were added - to
the C13 multisets, to C14's exhaustively enumerated owner lists (286 692 → 573 384 pod shapes per group), to C18's failure
points, and to the histories through a *second* per-group PRNG stream so that the histories explored so far stay the same
except where a new shape occurs - with coverage floors for each. The lesson is recorded in section 7: a generator built
from what the code reads today does not cover what a changed version might start to read.

A ninth round repeated the adversarial brief with the shapes of the eighth round excluded: 12 changes, one rejected on
confirmation (the repository's own suite fails with it), 7 of the remaining 11 caught at first try. Three misses were again
unread fields, now added: a deletion timestamp on a *Node* held by a finalizer (C08-8: such nodes dropped before the
oldest-first sort), pod-level `spec.resources` (C13-10), a CreateFleet answer with errors *and* fewer instances than asked
for (C18-7: the acquired ones leak) - plus the mirror-pod annotation, which the rejected change used. The node and pod
fields are drawn from a *third* PRNG stream reserved for fields that neither escalator, the oracle nor the simulated world
reads, so every history's observable behaviour on the unchanged tree is exactly what it was before they were added.
The fourth miss, `C14-7`, gives the pod informer a `Transform` that strips annotations before caching, so static pods are no
longer recognised. It lives in `pkg/k8s/cache.go`, the informer construction that every check replaced by harness-owned
listers. C14 now also makes one pass through the *real* `NewController`/`NewClient`: the informers list once through a REST
client served from a store holding 81 000 sampled pod shapes (every selector × every 7th affinity structure × every
owner list × every static annotation) and five node label maps, and the controller's own informer-backed filtered listers
must return exactly what the documented rule selects (`informer-lister-mismatch`). That closes part of the gap named in
section 7: the informer cache construction and `NewClient`'s lister wiring are now executed by a check.

After that all one hundred and fifty-six are caught by the quick check of the property they were written against
(`bin/regress_seeded` re-runs all of them against a scratch copy of /repo and rewrites the `detection` entries).

| Seeded change | Files | What was changed | Needs, to manifest | Quick check of that property |
|---|---|---|---|---|
%s

### 11.1 Changes that keep the properties: do the checks stay silent?

`benign/` holds 36 changes (and two probes of my own, `M01-n`, section 12) that must *not* raise an alarm (`VERIF_REPO=/tmp/repo2 bin/benign <patch>` applies one to a scratch
copy of /repo and runs all twenty quick checks). `R0x-n` (12): refactorings by three sub-agents told the twenty properties
and asked for substantial behaviour-preserving rewrites - all twenty checks silent on all twelve, re-run after every round of
strengthening. `L01`-`L04` (12): changes by four sub-agents asked to *change* observable behaviour inside the freedom the
statements leave (tie-breaks among equally old nodes by name or by pod count, one retry of a failed taint write, re-reading
a node before it is reaped, validating a removal batch before the first cloud call, continuing a Node-delete batch after a
failure, one retry of an orphan-termination call, an immediate first readiness poll, rejecting an empty instance id without
calling EC2): eleven silent; one false alarm of C19's direct oracle, corrected (section 12). A second round of twelve
(`L05`-`L08`, list in `benign/README.md`) after that correction: all silent.
""" % "\n".join(re.sub(r"\| \| ", "| ", r.replace("|  |", "|")) for r in rows)
p = os.path.join(root, "DESIGN.md")
s = open(p).read()
a = s.find("\n## 11. Seeded changes")
if a >= 0:
    b = s.find("\n## 12.", a)
    s = s[:a] + text.rstrip("\n") + "\n" + s[b:]
else:
    b = s.find("\n## 12.")
    s = s[:b] + text.rstrip("\n") + "\n" + s[b:]
open(p, "w").write(s)
print("section 11 written with", len(rows), "rows")
