#!/usr/bin/env python3
"""Regenerates MANIFEST.json from bin/props.py (run after editing props)."""
import json, os, sys
sys.path.insert(0, os.path.dirname(os.path.abspath(__file__)))
from props import PROPS

LEVEL_TEXT = {
    "exploration": "held on every execution explored: the real decision code ran against a stateful simulated cluster and cloud under virtual time, and an independent exact oracle judged every call it made. Not a proof: branches the generator does not reach are unjudged; coverage floors make a thin run inconclusive instead of green.",
    "fault_enumeration": "every single failure point of the enumerated scenarios was injected at the client boundary and the outcome judged by set algebra / ordering oracles; histories add randomly placed faults. Not a proof beyond the enumerated sizes and scenarios.",
}
TECH = {
    "history": "runtime monitor over a recorded call journal (virtual-time histories, exact oracle)",
    "direct": "direct execution of exported functions / the real AWS provider on a simulated cloud against an exact oracle",
    "race": "Go race detector over a RunForever stress workload",
}
DESIGN = {"C01": "4/C01", "C02": "4/C02", "C03": "4/C03", "C04": "4/C04", "C05": "4/C05", "C06": "4/C06", "C07": "4/C07", "C08": "4/C08", "C09": "4/C09",
          "C10": "4/C10", "C11": "4/C11", "C12": "4/C12", "C13": "4/C13", "C14": "4/C14", "C15": "4/C15", "C16": "4/C16", "C17": "4/C17", "C18": "4/C18",
          "C19": "4/C19", "C20": "4/C20"}

hooks = {
    "guard": "verif",
    "enable": "go build -tags verif,faketime (CGO_ENABLED=0) for the virtual-time harness; go build -race -tags verif for the race harness; both through the harness module's replace github.com/atlassian/escalator => /repo; go build -tags verif ./cmd (in /repo) for the provider-configuration dump used by C16",
    "baseline_off_cmd": "cd /repo && GOFLAGS=-mod=mod GOPROXY=off GOSUMDB=off go test -json -vet=off -count=1 -timeout 25m ./...",
    "source_commits": ["9a8964d", "0e07709", "60da094", "bf589f6"],
    "add_only": True,
}
claimed = [p for p in sorted(PROPS) if PROPS[p].get("claimed", True)]
checks = []
for p in claimed:
    s = PROPS[p]
    checks.append({
        "property_id": p,
        "quick_cmd": "bin/check %s --tier quick" % p,
        "thorough_cmd": "bin/check %s --tier thorough" % p,
        "evidence_file": "/verif/evidence/%s.json" % p,
        "replay_cmd_template": "bin/check %s --replay {path}" % p,
        "engine": "vrun",
        "level_claimed": {"category": s["level"], "text": LEVEL_TEXT[s["level"]], "design_ref": "DESIGN.md section " + DESIGN[p]},
        "level_note": "; ".join(s["assumptions"]),
        "technique": " + ".join(TECH[m] for m in s["modes"]),
    })
man = {
    "version": 1,
    "setup_cmd": "bin/setup",
    "hooks": hooks,
    "engines": [
        {"name": "vrun", "path": "harness/cmd/vrun", "serves_properties": claimed,
         "kind_free_text": "Go harness (module verifharness, replace => /repo) built with -tags verif,faketime: simulated Kubernetes API + AWS, journal, oracle, monitors; driven by bin/check (python3) which shards the fixed case list over 16 processes"},
    ],
    "checks": checks,
    "notes": "Exit 0 held / 1 violation (VIOLATION line) / 3 inconclusive (coverage floor not met or a child died without reproducing). Known findings: KNOWN_FINDINGS.txt.",
    "not_applicable": [{"property_id": p, "reason": PROPS[p]["not_applicable"]} for p in sorted(PROPS) if not PROPS[p].get("claimed", True)],
}
path = os.path.join(os.path.dirname(os.path.dirname(os.path.abspath(__file__))), "MANIFEST.json")
json.dump(man, open(path, "w"), indent=1)
open(path, "a").write("\n")
print("wrote", path, len(checks), "checks")
