"""Race-detector part of C15 / C20 (placeholder until the race harness is built)."""


def run(prop, tier, seed, workdir, replaydir, build, log):
    return {"violations": [], "inconclusive": [], "counters": {}, "samples": [], "evaluations": 0, "distinct": 0, "summary": "not built yet"}
