"""Race-detector part of C15 / C20: builds harness/cmd/vrace with -race and runs the RunForever stress workload.

C15: any WARNING: DATA RACE block (deduplicated by the first escalator/harness frame of each of the two stacks)
is a violation - escalator must not write into objects it shares with the informer cache, and its own state
must not be touched by two goroutines.  C20: the loop must stop when told to and must not panic or return
anything but "main loop stopped".  The wall clock decides nothing except a very generous stop watchdog (30 s
for a loop whose scans take milliseconds); if that fires the run is reported, with the summary, as a violation
of C20 only when it reproduces in a second run, otherwise as inconclusive."""
import glob
import json
import os
import re
import subprocess

VERIF = os.path.dirname(os.path.dirname(os.path.abspath(__file__)))


def parse_races(text):
    """Returns a list of (signature, block) for every DATA RACE block."""
    out = []
    blocks = re.split(r"(?m)^={18}\n", text)
    for b in blocks:
        if "WARNING: DATA RACE" not in b:
            continue
        # the two access stacks: take the first frame that is escalator's or the harness' in each
        stacks = re.split(r"(?m)^(?:Previous |)(?:read|write|atomic read|atomic write) (?:at|by) .*$", b)
        frames = []
        for st in stacks[1:3]:
            fr = ""
            for ln in st.splitlines():
                ln = ln.strip()
                if ln.startswith("github.com/atlassian/escalator/") or ln.startswith("main.") or ln.startswith("verifharness/"):
                    fr = re.sub(r"\(.*$", "", ln)
                    break
            frames.append(fr or "?")
        sig = "|".join(sorted(frames))
        out.append((sig, b))
    return out


def one_run(binpath, seed, duration, workdir, idx):
    logbase = os.path.join(workdir, "race_%d" % idx)
    summ = os.path.join(workdir, "race_%d.json" % idx)
    env = dict(os.environ, GORACE="halt_on_error=0 log_path=%s" % logbase)
    env.pop("GOMAXPROCS", None)
    env.pop("GOGC", None)
    p = subprocess.Popen(["timeout", "-s", "QUIT", str(int(duration) + 120), binpath, "-seed", str(seed), "-duration", "%ds" % duration, "-out", summ],
                         env=env, stdout=subprocess.PIPE, stderr=subprocess.STDOUT)
    return p, logbase, summ


def run(prop, tier, seed, workdir, replaydir, build, log):
    res = {"violations": [], "inconclusive": [], "counters": {}, "samples": [], "evaluations": 0, "distinct": 0, "summary": {}}
    binpath = os.path.join(VERIF, "bin", "vrace")
    build("verif", binpath, "./cmd/vrace", cgo="1", race=True)
    runs, duration = (6, 4) if tier == "quick" else (16, 20)
    procs = [one_run(binpath, seed * 100 + i, duration, workdir, i) for i in range(runs)]
    races = {}
    totals = {}
    for i, (p, logbase, summ) in enumerate(procs):
        out, _ = p.communicate()
        rc = p.returncode
        text = ""
        for f in glob.glob(logbase + "*"):
            if f.endswith(".json"):
                continue
            text += open(f, errors="replace").read()
        for sig, block in parse_races(text + (out.decode("utf-8", "replace") if out else "")):
            races.setdefault(sig, []).append(block)
        if not os.path.exists(summ):
            tail = (out or b"")[-1500:].decode("utf-8", "replace")
            if prop == "C20":
                path = os.path.join(replaydir, "race_run_%d_died.txt" % i)
                open(path, "w").write("vrace -seed %d died (rc=%s)\n%s\n" % (seed * 100 + i, rc, tail))
                res["violations"].append({"property": prop, "key": "race-workload-died", "case": "vrace:%d" % (seed * 100 + i), "scan": 0,
                                          "msg": "the RunForever workload died (rc=%s): %s" % (rc, tail[-300:].replace("\n", " | ")), "replay": path})
            else:
                res["inconclusive"].append("race run %d died (rc=%s) - reported under C20" % (i, rc))
            continue
        s = json.load(open(summ))
        res["evaluations"] += 1
        if s.get("stopped") and s.get("loop_error") == "main loop stopped":
            totals["stopped_runs"] = totals.get("stopped_runs", 0) + 1
        for k, v in s.items():
            if isinstance(v, (int, float)) and not isinstance(v, bool):
                totals[k] = totals.get(k, 0) + v
        if len(res["samples"]) < 2:
            res["samples"].append("race run seed=%d: %s" % (s["seed"], json.dumps({k: s[k] for k in ("node_updates", "node_deletes", "informer_replacements", "deep_reads", "metric_scrapes", "set_desired_calls", "stop_latency_ms", "loop_error")})))
        if s.get("unmodelled"):
            note = "race workload: %s; runs with such calls are not judged" % s["unmodelled"]
            if note not in res["inconclusive"]:
                res["inconclusive"].append(note)
            continue
        if prop == "C20":
            bad = None
            if s.get("panic"):
                bad = ("race-workload-panic", "RunForever panicked: %s" % s["panic"])
            elif not s.get("stopped") and s.get("loop_error") != "main loop stopped":
                bad = ("loop-ended-early", "RunForever returned %r before it was told to stop" % s.get("loop_error"))
            elif not s.get("stopped"):
                bad = ("loop-did-not-stop", "RunForever did not return within 30 s of the stop signal")
            elif s.get("calls_after_loop_returned", 0) > 0:
                bad = ("activity-after-loop-returned", "%d API calls arrived after RunForever had returned \"main loop stopped\": a scan is still running" % s["calls_after_loop_returned"])
            if bad:
                path = os.path.join(replaydir, "race_run_%d.txt" % i)
                open(path, "w").write(json.dumps(s, indent=1))
                res["violations"].append({"property": prop, "key": bad[0], "case": "vrace:%d" % s["seed"], "scan": 0, "msg": bad[1], "replay": path})
    if prop == "C15":
        for n, (sig, blocks) in enumerate(sorted(races.items())):
            path = os.path.join(replaydir, "data_race_%d.txt" % n)
            open(path, "w").write("%d report(s) with this pair of entry points: %s\n\n%s" % (len(blocks), sig, blocks[0]))
            res["violations"].append({"property": prop, "key": "data-race:" + sig, "case": "vrace", "scan": 0,
                                      "msg": "the race detector reports a data race between %s (%d report(s))" % (sig, len(blocks)), "replay": path})
    res["counters"] = {k: int(v) for k, v in totals.items()}
    res["distinct"] = sum(1 for k in ("node_updates", "node_deletes", "set_desired_calls", "terminate_calls", "metric_scrapes", "informer_replacements") if totals.get(k, 0) > 0)
    res["summary"] = {"runs": res["evaluations"], "seconds_each": duration, "totals": res["counters"], "distinct_race_reports": len(races)}
    return res
